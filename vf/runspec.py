"""Run specifications for the trajectory-level properties: a problem, a configuration,
a gradient mode and optional extras, all JSON-able, plus `execute(rspec)`."""

from __future__ import annotations

from typing import Any, Dict, Optional, Sequence

import numpy as np
from hypothesis import strategies as st

from vf.observe import Trace, run_min
from vf.specs import ALL_FAMILIES, CONVEX_FAMILIES, Problem, build, grid, loggrid, problem_spec

JAC_MODES = ("callable", None, "2-point", "3-point", "cs")
ANALYTIC_FAMILIES = CONVEX_FAMILIES


@st.composite
def run_spec(
    draw,
    families: Sequence[str] = ALL_FAMILIES,
    n_max: int = 10,
    jac_modes: Sequence[Any] = ("callable",),
    maxiter=(0, 40),
    maxfun=(1, 200),
    small_ls: bool = False,
    ftols=(0.0, 1e-12, 1e-5, 1e-2),
    gtols=(1e-8, 1e-6, 1e-5, 1e-3, 1e-2),
    narrow: bool = False,
    box_mode: Optional[str] = None,
    allow_degenerate: bool = True,
    with_scaler: bool = False,
    with_ftarget: bool = False,
    with_callback_stop: bool = False,
    gtol_callable: bool = False,
    kappa_max_exp: float = 4.0,
    maxcor_max: int = 10,
    units: bool = False,
    extras: bool = False,
    shift: bool = False,
):
    mode = draw(st.sampled_from(list(jac_modes)))
    fams = list(families)
    if mode == "cs":
        fams = [f for f in fams if f in ANALYTIC_FAMILIES] or list(ANALYTIC_FAMILIES)
    p = draw(problem_spec(families=fams, n_max=n_max, narrow=narrow, box_mode=box_mode,
                          allow_degenerate=allow_degenerate, kappa_max_exp=kappa_max_exp, units=units, shift=shift))
    cfg: Dict[str, Any] = {
        "maxcor": draw(st.integers(1, maxcor_max)),
        "maxiter": draw(st.integers(*maxiter)),
        "maxfun": draw(st.integers(*maxfun)),
        "maxls": draw(st.sampled_from([1, 2, 3, 4, 1, 2, 3, 5, 8, 20]) if small_ls else st.integers(1, 20)),
        "ftol": draw(st.sampled_from(list(ftols))),
        "gtol": draw(st.sampled_from(list(gtols))),
    }
    r: Dict[str, Any] = {"problem": p, "cfg": cfg, "jac": mode}
    if mode is None:
        cfg["eps"] = draw(st.sampled_from([1e-8, 1e-6]))
    elif mode in ("2-point", "3-point", "cs"):
        cfg["finite_diff_rel_step"] = draw(st.sampled_from([None, 1e-7]))
    if extras:
        # options that no listed invariant depends on: they must not break any of them
        n = p["obj"]["n"]
        if draw(st.integers(0, 2)) == 0:
            r["args"] = [draw(st.integers(-5, 5)), "tag"]
        if draw(st.integers(0, 4)) == 0:
            r["fun_style"] = draw(st.sampled_from(["array1", "array0"]))
        if draw(st.integers(0, 3)) == 0:
            cfg["max_steplength"] = draw(st.sampled_from([1e8, 10.0, 1.0, 0.1]))
        if draw(st.integers(0, 3)) == 0:
            cfg["ftol_linesearch"] = draw(st.sampled_from([1e-4, 1e-3, 1e-2]))
            cfg["gtol_linesearch"] = draw(st.sampled_from([0.1, 0.5, 0.9]))
            cfg["xtol_linesearch"] = draw(st.sampled_from([0.1, 1e-3]))
        if mode is None and draw(st.integers(0, 2)) == 0:
            cfg["eps"] = [draw(st.sampled_from([1e-8, 1e-6, 1e-4])) for _ in range(n)]
        if mode in ("2-point", "3-point", "cs") and draw(st.integers(0, 2)) == 0:
            cfg["finite_diff_rel_step"] = [draw(st.sampled_from([1e-7, 1e-5])) for _ in range(n)]
    if with_scaler:
        k = draw(st.sampled_from(["none", "none", "const", "unit"]))
        if k == "const":
            r["scaler"] = draw(loggrid(-3, 3, 24))
        elif k == "unit":
            r["scaler"] = "unit"
    if with_ftarget:
        k = draw(st.sampled_from(["none", "none", "float", "callable"]))
        if k != "none":
            # placed relative to f(x0): fraction of the way towards a much lower value
            r["ftarget"] = {"kind": k, "rel": draw(st.sampled_from([-0.5, 0.0, 0.1, 0.5, 0.9, 0.99, 1.0, 1.5]))}
    if gtol_callable and draw(st.booleans()):
        r["gtol_callable"] = True
    if with_callback_stop:
        k = draw(st.sampled_from(["none", "passive", "stop"]))
        if k == "passive":
            r["callback"] = "passive"
        elif k == "stop":
            r["callback"] = draw(st.integers(0, 12))
    return r


def resolve_ftarget(rspec: Dict[str, Any], prob: Problem):
    ft = rspec.get("ftarget")
    if not ft:
        return None, None
    f0 = prob.obj.f(np.clip(prob.x0, prob.lb, prob.ub))
    # rel = 0 -> f0 itself (met at once), rel = 1 -> f0 - (1+|f0|) (far below), negative -> above f0
    val = float(f0 - ft["rel"] * (1.0 + abs(f0)))
    if ft["kind"] == "callable":
        return ("callable", val), val
    return val, val


def execute(rspec: Dict[str, Any], *, prob: Optional[Problem] = None, **over) -> Trace:
    prob = prob if prob is not None else build(rspec["problem"])
    kw: Dict[str, Any] = {}
    kw["jac_mode"] = rspec.get("jac", "callable")
    if "scaler" in rspec:
        kw["scaler"] = rspec["scaler"]
    ft, _ = resolve_ftarget(rspec, prob)
    if ft is not None:
        kw["ftarget"] = ft
    if rspec.get("gtol_callable"):
        kw["gtol_callable"] = True
    cb = rspec.get("callback")
    if cb == "passive":
        kw["callback"] = "passive"
    elif isinstance(cb, int):
        kw["callback"] = [False] * cb + [True]
    if "args" in rspec:
        kw["extra"] = dict(kw.get("extra") or {}, args=tuple(rspec["args"]))
    if "fun_style" in rspec:
        kw["fun_style"] = rspec["fun_style"]
    kw.update(over)
    cfg = dict(rspec["cfg"])
    cfg.update(kw.pop("cfg_over", {}))
    return run_min(prob, cfg, **kw)
