"""Runs one run-spec in a *fresh interpreter* and returns the result snapshot bit-exactly (floats as hex).
Used by C14 / C20 to compare in-process results with what a fresh process returns."""

from __future__ import annotations

import json
import os
import subprocess
import sys

import numpy as np

HERE = os.path.dirname(os.path.dirname(os.path.abspath(__file__)))


def _hexify(snap):
    out = {}
    for k, v in snap.items():
        if isinstance(v, np.ndarray):
            out[k] = {"shape": list(v.shape), "hex": [float(t).hex() for t in v.ravel()]}
        elif isinstance(v, float):
            out[k] = {"f": float(v).hex()}
        else:
            out[k] = v
    return out


def _unhex(d):
    out = {}
    for k, v in d.items():
        if isinstance(v, dict) and "hex" in v:
            out[k] = np.array([float.fromhex(t) for t in v["hex"]], dtype=float).reshape(v["shape"])
        elif isinstance(v, dict) and "f" in v:
            out[k] = float.fromhex(v["f"])
        else:
            out[k] = v
    return out


def run_in_fresh_process(rspec, over=None, timeout=120):
    """Returns the snapshot dict of execute(rspec, **over) computed by a new interpreter, or raises RuntimeError."""
    env = dict(os.environ)
    repo = os.environ.get("LBFGSB_REPO", "/repo")
    env["PYTHONPATH"] = os.pathsep.join([repo, HERE, os.path.join(HERE, ".deps"), env.get("PYTHONPATH", "")])
    env["PYTHONHASHSEED"] = "0"
    payload = json.dumps({"rspec": rspec, "over": over or {}})
    r = subprocess.run([sys.executable, "-m", "vf.subproc"], input=payload, capture_output=True, text=True, env=env, cwd=HERE, timeout=timeout)
    if r.returncode != 0:
        raise RuntimeError("fresh process failed (harness): " + r.stderr[-400:])
    return _unhex(json.loads(r.stdout.strip().splitlines()[-1]))


def _main():
    import warnings

    warnings.simplefilter("ignore")
    np.seterr(all="ignore")
    data = json.loads(sys.stdin.read())
    from vf.runspec import execute

    tr = execute(data["rspec"], **data["over"])
    if tr.exc is not None:
        print(json.dumps({"exc": type(tr.exc).__name__ + ": " + str(tr.exc)}))
        return
    snap = dict(tr.res)
    snap["n_fun_calls"] = len(tr.fun_calls)
    print(json.dumps(_hexify(snap)))


if __name__ == "__main__":
    _main()
