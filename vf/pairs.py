"""Oracle shared by C13 and C18: the stored correction pairs are bit-exact differences of
points the run visited and of the gradients returned there, in chronological order."""

from __future__ import annotations

from typing import List, Optional, Sequence, Tuple

import numpy as np

from vf.core import Violation

EPS = 2.220446049250313e-16


def find_chain(points: Sequence[np.ndarray], grads: Sequence[np.ndarray], sk: np.ndarray, yk: np.ndarray, end: int,
               tol_s: float = 0.0, tol_y: float = 0.0) -> Tuple[Optional[List[int]], str]:
    """Search backwards from points[end] for indices i_0 < i_1 < ... < i_m = end with
    sk[j] == points[i_{j+1}] - points[i_j] and yk[j] == grads[i_{j+1}] - grads[i_j]
    (bitwise when the tolerances are 0).  Returns (chain, "") or (None, reason)."""
    m = sk.shape[0]

    def matches(cur, i, j):
        ds = points[cur] - points[i]
        ok_s = np.array_equal(ds, sk[j]) if tol_s == 0.0 else bool(np.max(np.abs(ds - sk[j])) <= tol_s)
        if not ok_s:
            return False, False
        dy = grads[cur] - grads[i]
        ok_y = np.array_equal(dy, yk[j]) if tol_y == 0.0 else bool(np.max(np.abs(dy - yk[j])) <= tol_y)
        return True, ok_y

    # depth-first with backtracking: at huge magnitudes two earlier points can both reproduce a pair bit for bit
    # (their distance is below one ulp of the step), and only one of them continues to a complete chain
    why = [""]
    budget = [20000]

    def search(cur, j):
        if j < 0:
            return [cur]
        s_near = None
        for i in range(cur - 1, -1, -1):
            budget[0] -= 1
            if budget[0] < 0:
                return None
            ok_s, ok_y = matches(cur, i, j)
            if not ok_s:
                continue
            s_near = i
            if ok_y:
                rest = search(i, j - 1)
                if rest is not None:
                    return rest + [cur]
        if not why[0]:
            if s_near is not None:
                dy = grads[cur] - grads[s_near]
                why[0] = (f"pair {j}: s equals visited point #{cur} - #{s_near} but y differs from the difference of the gradients returned there "
                          f"(max dev {float(np.max(np.abs(dy - yk[j]))):.3e})")
            else:
                why[0] = f"pair {j}: s={sk[j].tolist()} is not the difference between visited point #{cur} and any earlier visited point"
        return None

    chain = search(end, m - 1)
    if chain is None:
        return None, why[0]
    return chain, ""


def check_genuine_pairs(points, grads, state, clause_prefix: str, maxcor: int, *, eps_sy: Optional[float] = EPS,
                        inherited: int = 0, tol_s: float = 0.0, tol_y: float = 0.0, what: str = "state", must_contain=None):
    """`state` is a snapshot dict (x, sk, yk).  points/grads: the harness's own log of
    visited iterates and of the gradients returned there (already multiplied by the scaling
    factor).  The newest visited point must be state.x."""
    sk, yk = state["sk"], state["yk"]
    if sk.size == 0:
        return []
    if sk.shape != yk.shape:
        raise Violation(f"{clause_prefix}:pairs-shape", f"{what}: sk {sk.shape} yk {yk.shape}")
    if sk.shape[0] > maxcor:
        raise Violation(f"{clause_prefix}:at-most-maxcor-pairs", f"{what}: {sk.shape[0]} pairs with maxcor={maxcor}")
    # the newest retained point is the current x when the newest update was accepted, an
    # earlier visited point when it was rejected (merged pair): try ends from the newest back
    cur = None
    for i in range(len(points) - 1, -1, -1):
        if np.array_equal(points[i], state["x"]):
            cur = i
            break
    if cur is None:
        raise Violation(f"{clause_prefix}:state-x-was-visited", f"{what}: x is not among the visited points of the harness log")
    chain, why0 = None, ""
    for end in range(cur, -1, -1):
        chain, why = find_chain(points, grads, sk, yk, end, tol_s, tol_y)
        if chain is not None:
            break
        if end == cur:
            why0 = why
    if chain is None:
        raise Violation(f"{clause_prefix}:pairs-are-differences-of-visited-points", f"{what} (nit={state.get('nit')}): {why0}")
    if must_contain is not None and not any(np.array_equal(points[i], must_contain) for i in chain):
        raise Violation(f"{clause_prefix}:newest-point-retained", f"{what}: the newest stored point is not among the retained points {chain}")
    for j in range(sk.shape[0]):
        sty = float(sk[j] @ yk[j])
        yty = float(yk[j] @ yk[j])
        if eps_sy is not None:
            ok = sty > eps_sy * yty
        else:
            ok = sty > 0
        if not ok or not sty > 0:
            raise Violation(f"{clause_prefix}:curvature-condition", f"{what}: pair {j} has s.y={sty!r}, y.y={yty!r}")
    return chain
