"""Reference models that share no code with the implementation under test."""

from __future__ import annotations

from typing import List, Optional, Sequence, Tuple

import numpy as np

EPS = float(np.finfo(float).eps)


# ----------------------------------------------------------------------------
# dense BFGS
# ----------------------------------------------------------------------------


def dense_bfgs_B(S: Sequence[np.ndarray], Y: Sequence[np.ndarray], theta: float, n: int) -> np.ndarray:
    """B0 = theta*I, then B <- B - (Bs)(Bs)'/(s'Bs) + yy'/(y's) over the pairs in order."""
    B = theta * np.eye(n)
    for s, y in zip(S, Y):
        Bs = B @ s
        B = B - np.outer(Bs, Bs) / float(s @ Bs) + np.outer(y, y) / float(y @ s)
    return B


def dense_bfgs_H(S: Sequence[np.ndarray], Y: Sequence[np.ndarray], n: int, gamma: float = 1.0) -> np.ndarray:
    """Inverse recursion from gamma*I: H <- (I - rho s y')H(I - rho y s') + rho s s'."""
    H = gamma * np.eye(n)
    I = np.eye(n)
    for s, y in zip(S, Y):
        rho = 1.0 / float(y @ s)
        V = I - rho * np.outer(s, y)
        H = V @ H @ V.T + rho * np.outer(s, s)
    return H


def compact_B_from_mats(mats, n: int) -> np.ndarray:
    """B = theta I - W M W' with M = inv(F0 F1) read from the implementation's own state
    (theta, W, invMfactors): *the model the solver uses*, densified by the harness."""
    if not mats.use_factor:
        return float(mats.theta) * np.eye(n)
    invM = np.asarray(mats.invMfactors[0]) @ np.asarray(mats.invMfactors[1])
    W = np.asarray(mats.W)
    return float(mats.theta) * np.eye(n) - W @ np.linalg.solve(invM, W.T)


# ----------------------------------------------------------------------------
# generalized Cauchy point
# ----------------------------------------------------------------------------


def char_len(x, g, lb, ub, theta: float = 1.0, *extra) -> float:
    """Characteristic length of a problem instance (so that tolerances mean the same thing whatever the units
    x is measured in): the largest of |x|, the finite bounds, the natural step |g|/theta and any extra vectors."""
    vals = [float(np.max(np.abs(x))) if np.size(x) else 0.0]
    for b in (lb, ub):
        fin = np.abs(b[np.isfinite(b)])
        if fin.size:
            vals.append(float(fin.max()))
    if theta and np.isfinite(theta) and theta > 0:
        vals.append(float(np.max(np.abs(g))) / float(theta))
    for e in extra:
        if np.size(e):
            vals.append(float(np.max(np.abs(e))))
    return max(max(vals), 1e-300)


def breakpoints(x, g, lb, ub) -> np.ndarray:
    t = np.full(x.size, np.inf)
    with np.errstate(divide="ignore", invalid="ignore"):
        neg = g < 0
        pos = g > 0
        t[neg] = (x[neg] - ub[neg]) / g[neg]
        t[pos] = (x[pos] - lb[pos]) / g[pos]
    t[np.isnan(t)] = np.inf
    return t


def path_point(x, g, lb, ub, t: float) -> np.ndarray:
    """P(x - t g) computed variable-wise so that pinned variables are *exactly* on the bound."""
    tb = breakpoints(x, g, lb, ub)
    out = x - t * g
    reached = tb <= t
    out[reached & (g < 0)] = ub[reached & (g < 0)]
    out[reached & (g > 0)] = lb[reached & (g > 0)]
    out[g == 0] = x[g == 0]
    return out


def ref_cauchy_point(x, g, lb, ub, B) -> Tuple[np.ndarray, float]:
    """Algorithm CP of Byrd-Lu-Nocedal with a dense B: first local minimiser of
    q(t) = g'z + z'Bz/2, z = P(x - t g) - x.  Returns (x_c, t*)."""
    n = x.size
    tb = breakpoints(x, g, lb, ub)
    d = np.where(tb > 0, -g, 0.0)
    xc = x.copy()
    ts = np.unique(tb[(tb > 0) & np.isfinite(tb)])
    t_old = 0.0
    for k in range(len(ts) + 1):
        if not np.any(d != 0):
            return xc, t_old
        z = xc - x
        fp = float(d @ (g + B @ z))
        fpp = float(d @ (B @ d))
        if fp >= 0.0:
            return xc, t_old
        dt_min = -fp / fpp if fpp > 0 else np.inf
        t_next = ts[k] if k < len(ts) else np.inf
        dt = t_next - t_old
        if dt_min < dt:
            return xc + dt_min * d, t_old + dt_min
        # move to the breakpoint, pin the variables that reach their bound there
        xc = xc + dt * d
        hit = tb == t_next
        xc[hit & (g < 0)] = ub[hit & (g < 0)]
        xc[hit & (g > 0)] = lb[hit & (g > 0)]
        d = np.where(hit, 0.0, d)
        t_old = float(t_next)
    return xc, t_old


def gcp_predicate(x, g, lb, ub, B, xc, rel: float = 1e-9, L0: float = 1.0) -> Tuple[bool, str, dict]:
    """Validity predicate of the generalized Cauchy point (DESIGN C08).  Returns
    (ok, failed_clause, info)."""
    n = x.size
    info = {}
    if not (np.all(xc >= lb) and np.all(xc <= ub)):
        return False, "feasible", info
    tb = breakpoints(x, g, lb, ub)
    z = xc - x
    gn2 = float(g @ g)
    Bn = float(np.linalg.norm(B, 2))
    # recover t*: candidates are the values implied by each component that is still moving at x_c and
    # every breakpoint value; a component with a tiny gradient determines t only to (ulp of x)/|g|, so the
    # candidate that reproduces x_c best over *all* components is taken
    moving = (tb > 0) & (g != 0) & ~(((g < 0) & (xc == ub)) | ((g > 0) & (xc == lb)))
    cands = []
    if np.any(moving):
        cands += ((x[moving] - xc[moving]) / g[moving]).tolist()
    cands += tb[(tb > 0) & np.isfinite(tb)].tolist()
    if not cands:
        cands = [0.0]
    best = None
    for tc in cands:
        if not np.isfinite(tc) or tc < 0:
            continue
        pp = path_point(x, g, lb, ub, tc)
        xs = L0 + np.maximum(np.abs(x), np.abs(pp))
        dv = np.abs(xc - pp)
        # a variable whose breakpoint coincides with tc may sit on either side of the rounding
        near = (tb > tc * (1.0 - 1e-7) - 1e-300) & (tb < tc * (1.0 + 1e-7) + 1e-300)
        dv[near] = np.minimum(dv[near], np.abs(xc - (x - tc * g))[near])
        score = float(np.max(dv / xs))
        if best is None or score < best[0]:
            best = (score, float(tc))
    if best is None:
        return False, "on-path(t<0)", {}
    tstar = best[1]
    info["tstar"] = tstar
    if best[0] > 1e-7:
        return False, "on-path", {"dev": best[0], "tstar": tstar}
    # variables whose breakpoint lies clearly before t* must sit exactly on their bound
    clearly = tb <= tstar * (1.0 - 1e-7) - 1e-300
    on_bound = np.where(g < 0, xc == ub, xc == lb)
    if np.any(clearly & (g != 0) & ~on_bound):
        return False, "pinned-exactly", {"idx": np.nonzero(clearly & (g != 0) & ~on_bound)[0].tolist()}
    if np.any((g == 0) & (xc != x)) or np.any((tb == 0) & (xc != x)):
        return False, "on-path(stationary-variable-moved)", {}

    tol = rel * (gn2 + Bn * float(np.linalg.norm(z)) * float(np.linalg.norm(g))) + 1e-300

    def qprime(t: float, right: bool) -> float:
        zt = path_point(x, g, lb, ub, t) - x
        act = (tb > t) if right else (tb >= t)
        dd = np.where(act & (tb > 0), -g, 0.0)
        return float(dd @ (g + B @ zt))

    # model value never above m(x) = 0
    m = float(g @ z + 0.5 * z @ (B @ z))
    info["m"] = m
    if m > tol * max(tstar, 1e-300) + 1e-12 * abs(float(g @ z)):
        return False, "model-not-increased", {"m": m}
    ts = np.unique(tb[(tb > 0) & np.isfinite(tb)])
    slack = 1e-7
    for tj in ts:
        if tj < tstar * (1.0 - slack):
            # passed this breakpoint: must still be going downhill on both sides of it
            if qprime(tj, False) > tol:
                return False, "first-minimiser(interior-minimum-skipped)", {"t": float(tj)}
            if qprime(tj, True) > tol:
                return False, "first-minimiser(breakpoint-minimum-skipped)", {"t": float(tj)}
    if tstar > 0:
        ql = qprime(tstar, False)
        if ql > tol * 10 + 1e-7 * gn2 * 0:
            # overshoot: derivative from the left already positive
            # allow the rounding of t*: compare with derivative slightly before
            ql2 = qprime(tstar * (1.0 - slack), False)
            if ql2 > tol * 10:
                return False, "first-minimiser(overshoot)", {"qleft": ql}
    qr = qprime(tstar, True)
    if qr < -tol * 10:
        qr2 = qprime(tstar * (1.0 + slack) + 1e-300, True)
        if qr2 < -tol * 10 - slack * gn2:
            # Exact tie: Algorithm CP of Byrd-Lu-Nocedal (and the Fortran code) removes the
            # tied variables from the free set one at a time and stops as soon as the
            # derivative with only *some* of them fixed is non-negative.  Such a stop at a
            # tied breakpoint is the point the defining algorithm returns, so it is accepted.
            tied = np.nonzero((tb > tstar * (1.0 - slack)) & (tb < tstar * (1.0 + slack) + 1e-300) & (tb > 0))[0]
            if tied.size >= 2:
                if tied.size > 10:
                    info["tie"] = "large tie accepted without enumeration"
                    return True, "", info
                zt = path_point(x, g, lb, ub, tstar) - x
                base = np.where((tb > tstar * (1.0 + slack) + 1e-300) & (tb > 0), -g, 0.0)
                import itertools as _it

                for r in range(1, tied.size):
                    for keep_moving in _it.combinations(tied.tolist(), tied.size - r):
                        dd = base.copy()
                        for j in keep_moving:
                            dd[j] = -g[j]
                        if float(dd @ (g + B @ zt)) >= -tol * 10:
                            info["tie"] = "stop at a tied breakpoint as Algorithm CP does"
                            return True, "", info
            return False, "first-minimiser(stopped-early)", {"qright": qr}
    return True, "", info


# ----------------------------------------------------------------------------
# subspace minimisation
# ----------------------------------------------------------------------------


def ref_subspace_point(x, g, lb, ub, B, xc) -> Tuple[np.ndarray, float]:
    """d_hat = -(Z'BZ)^{-1} Z'(g + B(xc - x)); x_bar = xc + alpha* Z d_hat with the
    largest alpha* <= 1 keeping the box."""
    free = (xc != lb) & (xc != ub)
    if not np.any(free):
        return xc.copy(), 1.0
    r = g + B @ (xc - x)
    Bz = B[np.ix_(free, free)]
    dh = -np.linalg.solve(Bz, r[free])
    alpha = 1.0
    xf = xc[free]
    lf, uf = lb[free], ub[free]
    with np.errstate(divide="ignore", invalid="ignore"):
        for i in range(dh.size):
            if dh[i] > 0 and np.isfinite(uf[i]):
                alpha = min(alpha, (uf[i] - xf[i]) / dh[i])
            elif dh[i] < 0 and np.isfinite(lf[i]):
                alpha = min(alpha, (lf[i] - xf[i]) / dh[i])
    out = xc.copy()
    out[free] = xf + alpha * dh
    return out, float(alpha)


def model_value(x, g, B, p) -> float:
    z = p - x
    return float(g @ z + 0.5 * z @ (B @ z))
