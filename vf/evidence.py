"""Evidence writer: validates against the schema shipped with the task (a copy is
kept under /verif/schemas so that the check does not depend on /root/.vp)."""

import json
import os

HERE = os.path.dirname(os.path.dirname(os.path.abspath(__file__)))


def _schema():
    for p in (os.path.join(HERE, "schemas", "EVIDENCE.schema.json"), "/root/.vp/EVIDENCE.schema.json"):
        if os.path.exists(p):
            with open(p) as fh:
                return json.load(fh)
    return None


def write_evidence(prop: str, ev: dict) -> str:
    import jsonschema

    sch = _schema()
    if sch is not None:
        jsonschema.validate(ev, sch)
    # VERIF_EVIDENCE_DIR exists only so that self-tests against mutated scratch copies do not overwrite real evidence
    d = os.environ.get("VERIF_EVIDENCE_DIR") or os.path.join(HERE, "evidence")
    os.makedirs(d, exist_ok=True)
    path = os.path.join(d, f"{prop}.json")
    tmp = path + ".tmp"
    with open(tmp, "w") as fh:
        json.dump(ev, fh, indent=1, allow_nan=False)
    os.replace(tmp, path)
    return path
