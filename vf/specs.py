"""Hypothesis strategies producing JSON-able problem specifications, and the pure
function `build(spec)` turning one into arrays and closures.

All numbers are drawn through Hypothesis (integers mapped onto grids, so that
shrinking moves towards simple values) -- no RNG of our own.
"""

from __future__ import annotations

import math
from typing import Any, Dict, List, Optional, Sequence

import numpy as np
from hypothesis import strategies as st

from vf.core import unjson_float
from vf.families import BENCH_MIN_N, BENCH_NAMES, Objective, build_objective

# ----------------------------------------------------------------------------
# elementary draws
# ----------------------------------------------------------------------------


def grid(lo: float, hi: float, steps: int = 400):
    """Float on a uniform grid [lo, hi] (shrinks towards lo)."""
    return st.integers(0, steps).map(lambda k: lo + (hi - lo) * k / steps)


def sgrid(a: float, steps: int = 400):
    """Symmetric grid [-a, a] shrinking towards 0."""
    return st.integers(-steps, steps).map(lambda k: a * k / steps)


def loggrid(lo_exp: float, hi_exp: float, steps: int = 120, base: float = 10.0):
    return st.integers(0, steps).map(lambda k: base ** (lo_exp + (hi_exp - lo_exp) * k / steps))


def vec(elem, n: int):
    return st.lists(elem, min_size=n, max_size=n)


# ----------------------------------------------------------------------------
# objectives
# ----------------------------------------------------------------------------

CONVEX_FAMILIES = ("boxqp", "qp_quartic", "qp_softplus")
ALL_FAMILIES = CONVEX_FAMILIES + ("rosenbrock", "sines", "badscale", "bench", "padded")


@st.composite
def objective_spec(draw, n: int, families: Sequence[str] = ALL_FAMILIES, kappa_max_exp: float = 4.0):
    fam = draw(st.sampled_from(list(families)))
    if fam == "padded":
        # an objective that ignores some of its variables (their gradient component is exactly zero)
        if n < 2:
            fam = "boxqp"
        else:
            k = draw(st.integers(1, n - 1))
            idx = sorted(draw(st.permutations(list(range(n))))[:k])
            base = draw(objective_spec(k, ("boxqp", "sines", "rosenbrock", "qp_quartic"), kappa_max_exp))
            return {"family": "padded", "n": n, "idx": idx, "base": base}
    if fam == "rosenbrock" and n < 2:
        fam = "boxqp"
    if fam in CONVEX_FAMILIES:
        kexp = draw(grid(0.0, kappa_max_exp, 40))
        lam = [1.0] + [10.0 ** (kexp * draw(grid(0.0, 1.0, 50))) for _ in range(n - 1)]
        if n > 1 and draw(st.booleans()):
            lam[-1] = 10.0**kexp
        nh = draw(st.integers(0, min(3, n - 1) if n > 1 else 0))
        hv = [draw(vec(sgrid(1.0, 20), n)) for _ in range(nh)]
        spec = {"family": fam, "n": n, "lam": lam, "hv": hv, "b": draw(vec(sgrid(5.0, 100), n))}
        if fam == "qp_quartic":
            spec["cq"] = draw(vec(grid(0.0, 2.0, 40), n))
        if fam == "qp_softplus":
            spec["cs"] = draw(vec(grid(0.0, 4.0, 40), n))
        return spec
    if fam == "rosenbrock":
        return {"family": fam, "n": n, "a": draw(st.sampled_from([100.0, 10.0, 1.0]))}
    if fam == "sines":
        return {
            "family": fam, "n": n, "s": [0.05] * n, "amp": 1.0,
            "w": draw(vec(grid(0.5, 6.0, 55), n)), "phi": draw(vec(grid(0.0, 6.0, 60), n)),
        }
    if fam == "badscale":
        return {
            "family": fam, "n": n, "s": draw(vec(loggrid(-3, 3, 60), n)), "amp": 5.0,
            "w": draw(vec(grid(0.5, 6.0, 55), n)), "phi": draw(vec(grid(0.0, 6.0, 60), n)),
        }
    if fam == "bench":
        name = draw(st.sampled_from(BENCH_NAMES))
        if n < BENCH_MIN_N.get(name, 1):
            name = "sphere"
        return {"family": "bench", "n": n, "bench": name}
    raise ValueError(fam)


# ----------------------------------------------------------------------------
# boxes and starts
# ----------------------------------------------------------------------------

KINDS = ("free", "lower", "upper", "both", "degenerate")


@st.composite
def box_spec(draw, n: int, mode: Optional[str] = None, allow_degenerate: bool = True, narrow: bool = False):
    """Returns {"lb": [...], "ub": [...]} with None for an absent bound.
    mode: None (mixed), 'boxed' (all two-sided), 'free' (no bounds)."""
    if mode is None:
        mode = draw(st.sampled_from(["mixed", "mixed", "mixed", "boxed", "free"]))
    lb: List[Optional[float]] = []
    ub: List[Optional[float]] = []
    kinds = []
    wexp_lo, wexp_hi = (-3.0, 0.5) if narrow else (-2.0, 1.5)
    for _ in range(n):
        if mode == "free":
            kind = "free"
        elif mode == "boxed":
            kind = draw(st.sampled_from(["both", "both", "both", "both", "degenerate"] if allow_degenerate else ["both"]))
        else:
            kind = draw(st.sampled_from(list(KINDS) if allow_degenerate else list(KINDS[:4])))
        c = draw(sgrid(2.0, 40))
        wl = math.exp(draw(grid(wexp_lo, wexp_hi, 35)))
        wu = math.exp(draw(grid(wexp_lo, wexp_hi, 35)))
        # a bound located exactly at zero (non-negativity, an upper bound of 0, a variable fixed at 0) is the most
        # common bound there is, and 0.0 / -0.0 are special values for any code that tests a bound for truth
        zero = draw(st.sampled_from([None, None, None, None, None, "lower", "upper", "neg-zero"]))
        if kind == "free":
            lb.append(None); ub.append(None)
        elif kind == "lower":
            lb.append((-0.0 if zero == "neg-zero" else 0.0) if zero else c - wl); ub.append(None)
        elif kind == "upper":
            lb.append(None); ub.append((-0.0 if zero == "neg-zero" else 0.0) if zero else c + wu)
        elif kind == "both":
            if zero in ("lower", "neg-zero"):
                lb.append(-0.0 if zero == "neg-zero" else 0.0); ub.append(wu)
            elif zero == "upper":
                lb.append(-wl); ub.append(0.0)
            else:
                lb.append(c - wl); ub.append(c + wu)
        else:
            v = (-0.0 if zero == "neg-zero" else 0.0) if zero else c
            lb.append(v); ub.append(v)
        kinds.append(kind)
    return {"lb": lb, "ub": ub, "kinds": kinds}


@st.composite
def start_spec(draw, box: Dict[str, Any], face_bias: bool = True):
    """Feasible start by construction: per variable on lower / on upper / interior."""
    x0 = []
    pos = []
    for l, u in zip(box["lb"], box["ub"]):
        where = draw(st.sampled_from(["lower", "upper", "interior", "interior"] if face_bias else ["interior", "interior", "interior", "lower", "upper"]))
        fr = draw(grid(0.0, 1.0, 64))
        if l is not None and u is not None:
            if where == "lower":
                x = l
            elif where == "upper":
                x = u
            else:
                x = min(max(l + fr * (u - l), l), u)
        elif l is not None:
            x = l if where == "lower" else l + 3.0 * fr
            where = "lower" if where == "lower" else "interior"
        elif u is not None:
            x = u if where == "upper" else u - 3.0 * fr
            where = "upper" if where == "upper" else "interior"
        else:
            x = -3.0 + 6.0 * fr
            where = "interior"
        x0.append(x)
        pos.append(where)
    return {"x0": x0, "pos": pos}


@st.composite
def problem_spec(
    draw,
    families: Sequence[str] = ALL_FAMILIES,
    n_min: int = 1,
    n_max: int = 12,
    box_mode: Optional[str] = None,
    allow_degenerate: bool = True,
    narrow: bool = False,
    kappa_max_exp: float = 4.0,
    face_bias: bool = True,
    units: bool = False,
    shift: bool = False,
):
    n = draw(st.integers(n_min, n_max))
    obj = draw(objective_spec(n, families, kappa_max_exp))
    box = draw(box_spec(n, box_mode, allow_degenerate, narrow))
    if obj["family"] == "bench" and obj["bench"] == "ackley":
        pass
    start = draw(start_spec(box, face_bias))
    out = {"obj": obj, "lb": box["lb"], "ub": box["ub"], "x0": start["x0"]}
    if units and draw(st.integers(0, 3)) == 0:
        out["units"] = {"xs": 10.0 ** draw(st.integers(-6, 6)), "fs": 10.0 ** draw(st.integers(-8, 8))}
    if shift and draw(st.integers(0, 4)) == 0:
        out["shift"] = draw(st.sampled_from([100.0, -1000.0, 1e4, -1e5, 1e6]))
    return out


# ----------------------------------------------------------------------------
# build
# ----------------------------------------------------------------------------


class Problem:
    def __init__(self, spec: Dict[str, Any]):
        self.spec = spec
        self.obj: Objective = build_objective(spec["obj"])
        self.n = self.obj.n
        self.lb = np.array([-np.inf if v is None else unjson_float(v) for v in spec["lb"]], dtype=float)
        self.ub = np.array([np.inf if v is None else unjson_float(v) for v in spec["ub"]], dtype=float)
        self.x0 = np.array([unjson_float(v) for v in spec["x0"]], dtype=float)
        if spec.get("shift"):
            # the same problem with its origin far away: x' = x + T (a start on a bound stays exactly on it: both are
            # the same float plus the same T)
            from vf.families import Translated

            T = float(spec["shift"])
            self.obj = Translated(self.obj, T)
            self.lb, self.ub, self.x0 = self.lb + T, self.ub + T, self.x0 + T
        if spec.get("units"):
            # the same problem in other units: x' = xs*x, f' = fs*f (box and start scaled consistently;
            # a start on a bound stays exactly on it because both are multiplied by the same number)
            from vf.families import XScaled

            xs, fs = float(spec["units"]["xs"]), float(spec["units"]["fs"])
            self.obj = XScaled(self.obj, xs, fs)
            self.lb, self.ub, self.x0 = self.lb * xs, self.ub * xs, self.x0 * xs
        self.bounds = np.column_stack([self.lb, self.ub])
        self.unbounded = bool(np.all(np.isinf(self.lb)) and np.all(np.isinf(self.ub)))

    def pg(self, x, g) -> float:
        return float(np.max(np.abs(np.clip(x - g, self.lb, self.ub) - x)))

    def n_on_bound(self, x) -> int:
        return int(np.count_nonzero((x == self.lb) | (x == self.ub)))

    def n_outward(self, x, g) -> int:
        return int(np.count_nonzero(((x == self.lb) & (g > 0)) | ((x == self.ub) & (g < 0))))


def build(spec: Dict[str, Any]) -> Problem:
    return Problem(spec)


# ----------------------------------------------------------------------------
# configurations
# ----------------------------------------------------------------------------


@st.composite
def config_spec(
    draw,
    maxiter=(0, 40),
    maxfun=(1, 200),
    small_ls: bool = False,
    ftols=(0.0, 1e-12, 1e-5, 1e-2),
    gtols=(1e-8, 1e-6, 1e-5, 1e-3, 1e-2),
):
    cfg = {
        "maxcor": draw(st.integers(1, 10)),
        "maxiter": draw(st.integers(*maxiter)),
        "maxfun": draw(st.integers(*maxfun)),
        "maxls": draw(st.sampled_from([1, 2, 3, 4, 1, 2, 3, 5, 8, 20]) if small_ls else st.integers(1, 20)),
        "ftol": draw(st.sampled_from(list(ftols))),
        "gtol": draw(st.sampled_from(list(gtols))),
    }
    return cfg
