"""C19 -- each packaged benchmark gradient is the gradient of its benchmark function.

Oracle: 6th-order Richardson-extrapolated central difference of the function
itself (reference model independent of the exported gradient)."""

from __future__ import annotations

import math

import numpy as np
from hypothesis import strategies as st

from vf.core import Discard, Violation, require
from vf.families import BENCH_MIN_N, BENCH_NAMES

ID = "C19"
LEVEL = "exploration"
RULE = (
    "Hypothesis draws (function, n in 1..12 [2.. for chained], x in [-5,5]^n on a 1e-4 grid plus an irrational offset, a quarter of the cases with coordinates placed on special values (zeros of Griewank's cosine factors, multiples of pi, integers, half-integers, 0); half of the cases re-use the same array object after moving it in place by a drawn step; a quarter also pass the point as a plain list or tuple, half of the rest as a strided / column / reversed view or a read-only array); "
    "non-trivial = n>=2 and no coordinate within 1e-3 of an integer or half-integer (where the test-suite's integer points live); "
    "distinct = distinct (function, x)"
)
ASSUMPTIONS = [
    "the benchmark functions are smooth on the sampled domain away from the excluded neighbourhoods (|x|<0.1 for Ackley, |cos(x_i/sqrt(i))|<1e-3 for Griewank)",
    "tolerance 1e-6*(1+|D6 f|_inf): Richardson derivative measured accurate to 2e-12 on correct gradients",
]


def richardson_grad(f, x: np.ndarray, h0: float = 2e-2) -> np.ndarray:
    """Central differences with steps h0, h0/2, h0/4 extrapolated twice (error O(h^6))."""
    n = x.size
    out = np.zeros(n)
    for i in range(n):
        d = []
        for k in range(3):
            h = h0 / (2**k)
            e = np.zeros(n)
            e[i] = h
            d.append((f(x + e) - f(x - e)) / (2.0 * h))
        r1 = [(4.0 * d[1] - d[0]) / 3.0, (4.0 * d[2] - d[1]) / 3.0]
        out[i] = (16.0 * r1[1] - r1[0]) / 15.0
    return out


@st.composite
def case(draw, name):
    n = draw(st.integers(BENCH_MIN_N.get(name, 1), 12))
    ks = draw(st.lists(st.integers(-49999, 49999), min_size=n, max_size=n))
    off = draw(st.sampled_from([0.0, math.pi * 1e-5, math.e * 1e-5]))
    x = [k * 1e-4 + off for k in ks]
    # special coordinate values: zeros of the factors / terms that closed-form gradients divide by or branch on
    # (cos(x_i / sqrt(i)) = 0 for Griewank, integers and half-integers for Rastrigin, 0 and +-1 for the polynomials)
    if draw(st.integers(0, 3)) == 0:
        for i in range(n):
            if draw(st.booleans()):
                kind = draw(st.sampled_from(["cos0", "cos0", "pi", "int", "half", "zero"]))
                m = draw(st.integers(-3, 3))
                r = math.sqrt(i + 1)
                v = {"cos0": (math.pi / 2 + m * math.pi) * r, "pi": m * math.pi * r, "int": float(m), "half": m + 0.5, "zero": 0.0}[kind]
                if abs(v) <= 5.0:
                    x[i] = v + draw(st.sampled_from([0.0, 0.0, 1e-12, -1e-9]))
    out = {"bench": name, "x": x, "container": draw(st.sampled_from(["ndarray", "ndarray", "list", "tuple", "strided", "column", "reversed", "readonly"]))}
    if draw(st.booleans()):
        out["step"] = [k * 1e-3 for k in draw(st.lists(st.integers(-300, 300), min_size=n, max_size=n))]
    return out


def check(spec, stats=None):
    import lbfgsb

    name = spec["bench"]
    x = np.array(spec["x"], dtype=float)
    n = x.size
    f = getattr(lbfgsb, name)
    g = getattr(lbfgsb, name + "_grad")
    if name == "ackley" and np.linalg.norm(x) < 0.1 + 0.05:
        raise Discard("ackley near origin")
    if name == "griewank":
        den = np.sqrt(np.arange(1, n + 1))
        if np.any(np.cos(x / den) == 0.0):
            raise Discard("griewank: a cosine factor is exactly 0.0 in floating point (never happens for a float argument)")
    fx = f(x.copy())
    require(np.ndim(fx) == 0, "value-is-scalar", f"{name}: ndim={np.ndim(fx)}")
    require(np.isrealobj(np.asarray(fx)) and np.isfinite(fx), "value-is-real", f"{name}: f={fx!r}")
    gx = np.asarray(g(x.copy()))
    require(gx.shape == x.shape, "gradient-shape", f"{name}: grad shape {gx.shape} vs x {x.shape}")
    ref = richardson_grad(lambda z: float(f(z)), x)
    err = float(np.max(np.abs(gx - ref)))
    tol = 1e-6 * (1.0 + float(np.max(np.abs(ref))))
    if stats is not None:
        frac = np.abs(x * 2 - np.round(x * 2))
        nt = n >= 2 and bool(np.all(frac > 2e-3))
        stats.case(spec, nt, [f"fn={name}", f"n={'1' if n == 1 else '2-4' if n <= 4 else '5-12'}"])
        stats.maxi(f"max_err_over_tol[{name}]", err / tol)
    require(err <= tol, f"gradient-matches[{name}]", f"{name} n={n}: max|grad-D6f|={err:.3e} > tol={tol:.3e} at x={x.tolist()}")
    # array_like input (the docstrings say so): a plain list and a tuple must give the same answers as the ndarray
    if spec.get("container") in ("list", "tuple"):
        xl = x.tolist() if spec["container"] == "list" else tuple(x.tolist())
        gl = np.asarray(g(xl))
        require(gl.shape == x.shape, f"gradient-shape[{name}]", f"{name}: gradient of a {spec['container']} of length {n} has shape {gl.shape}")
        require(float(np.max(np.abs(gl - gx))) <= 1e-12 * (1.0 + float(np.max(np.abs(gx)))), f"gradient-matches[{name}]",
                f"{name}: gradient for {spec['container']} input differs from the gradient for the same values as ndarray")
        fl = f(xl)
        require(np.ndim(fl) == 0 and abs(float(fl) - float(fx)) <= 1e-12 * (1.0 + abs(float(fx))), f"value-is-scalar[{name}]", f"{name}: f({spec['container']}) = {fl!r} vs {fx!r}")
        if stats is not None:
            stats.bump("cases-with-list-or-tuple-input")
    # ... and so must any ndarray holding the same values, whatever its memory layout: a strided view, a column of a
    # C-ordered matrix (a member of a population), a reversed view, a read-only array
    if spec.get("container") in ("strided", "column", "reversed", "readonly"):
        kind = spec["container"]
        if kind == "strided":
            base = np.full(2 * n, 7.25)
            base[::2] = x
            xv = base[::2]
        elif kind == "column":
            base = np.arange(3 * n, dtype=float).reshape(n, 3) * 0.37 - 1.0
            base[:, 1] = x
            xv = base[:, 1]
        elif kind == "reversed":
            base = x[::-1].copy()
            xv = base[::-1]
        else:
            base = x.copy()
            base.setflags(write=False)
            xv = base
        keep = base.copy()
        try:
            gl = np.asarray(g(xv))
            fl = f(xv)
        except ValueError as e:
            raise Violation(f"gradient-matches[{name}]", f"{name}: a {kind} ndarray argument is rejected: {e}")
        require(np.array_equal(keep, base), f"argument-untouched[{name}]", f"{name}: the memory around a {kind} argument was modified")
        require(gl.shape == x.shape, f"gradient-shape[{name}]", f"{name}: gradient of a {kind} view of length {n} has shape {gl.shape}")
        require(float(np.max(np.abs(gl - gx))) <= 1e-12 * (1.0 + float(np.max(np.abs(gx)))), f"gradient-matches[{name}]",
                f"{name}: gradient for a {kind} ndarray differs from the gradient at a contiguous copy of the same values (max diff {float(np.max(np.abs(gl - gx))):.3e})")
        require(np.ndim(fl) == 0 and abs(float(fl) - float(fx)) <= 1e-12 * (1.0 + abs(float(fx))), f"value-is-scalar[{name}]", f"{name}: f({kind} view) = {fl!r} vs {fx!r}")
        if stats is not None:
            stats.bump("cases-with-non-contiguous-or-read-only-input")
    # The pair must be a pure function of the *values* handed in: the same array object, modified in
    # place by the caller between two calls (a very common calling pattern), must be answered at its
    # current contents, and neither call may modify it.
    step = np.asarray(spec.get("step", []), dtype=float)
    if step.size == n and np.any(step != 0):
        buf = x.copy()
        f(buf)
        g(buf)
        require(np.array_equal(buf, x), f"argument-untouched[{name}]", f"{name}: the argument array was modified")
        buf += step
        x2 = x + step
        if name == "ackley" and np.linalg.norm(x2) < 0.15:
            return
        if name == "griewank" and np.any(np.cos(x2 / np.sqrt(np.arange(1, n + 1))) == 0.0):
            return
        g2 = np.asarray(g(buf))
        f2 = f(buf)
        require(np.array_equal(buf, x2), f"argument-untouched[{name}]", f"{name}: the argument array was modified")
        ref2 = richardson_grad(lambda z: float(f(z)), x2.copy())
        tol2 = 1e-6 * (1.0 + float(np.max(np.abs(ref2))))
        err2 = float(np.max(np.abs(g2 - ref2)))
        require(err2 <= tol2, f"gradient-matches[{name}]",
                f"{name} n={n}: after the caller moved the same array in place, max|grad-D6f|={err2:.3e} > {tol2:.1e} (stale answer for the previous contents?)")
        require(float(f2) == float(f(x2.copy())), f"value-is-function-of-contents[{name}]", f"{name}: f(same array, new contents)={f2!r} but f(fresh copy)={f(x2.copy())!r}")
        if stats is not None:
            stats.bump("cases-with-in-place-move-of-the-argument")


def shard(ctx):
    # one test per function: a defect in one gradient must not end the search on the others
    for name in BENCH_NAMES:
        ctx.hyp(name, case(name), check, ctx.pick(2500, 100000))


def replay(spec):
    check(spec, None)
