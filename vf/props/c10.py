"""C10 -- the limited-memory matrix is the BFGS matrix of the stored pairs and stays SPD.

Model-based stateful testing: a RuleBasedStateMachine drives update_lbfgs_matrices with
accepted / rejected / marginal candidate updates; the model is a plain list of points with
drop-oldest, and the dense BFGS recursion is the reference for the matrix."""

from __future__ import annotations

from collections import deque

import numpy as np
from hypothesis import strategies as st
from hypothesis.stateful import RuleBasedStateMachine, initialize, invariant, precondition, rule

from vf.core import Discard, Violation, require
from vf.families import householder_Q
from vf.refmodels import compact_B_from_mats, dense_bfgs_B
from vf.specs import grid, loggrid, sgrid, vec

ID = "C10"
LEVEL = "exploration"
RULE = (
    "RuleBasedStateMachine histories of up to 40 candidate updates on one (X, G, mats) memory, n=1..12, maxcor=1..10: rules accepted_update (y = A s + non-convex perturbation keeping s.y>0, "
    "A a drawn SPD matrix), rejected_update (reversed gradient, zero step, y with negative projection on s), marginal_update (y = (c/eps) s with c around 1, i.e. s.y within a factor 2 of eps*y.y, "
    "and near-orthogonal y whose decision is observed rather than predicted); invariants after every step. Plus the update sequences intercepted in real runs (failed line searches, update functions that really rewrite the gradients) and restarts with a reduced maxcor (the memory refilled from the checkpoint must keep the newest pairs). "
    "non-trivial = the history has >=1 rejection after >=1 acceptance and >=1 overflow of the memory; distinct = distinct operation sequence"
)
ASSUMPTIONS = [
    "numerical clauses (matrix equality, eigenvalue>0, secant, bmv) judged only where every source of amplification is <= 1e6 (cond of the dense B, cond of the compact middle matrix, every pair's y.y/s.y in [1e-6,1e6], cancellation in s.y <= 1e-10) with tolerance max(1e-8, 1e3*eps*cond); exact clauses (count, memory content, accept/reject, untouched-on-reject) always; gated steps counted",
    "for candidates whose curvature test is dominated by rounding noise the accept/reject decision is observed, not predicted",
]
EPS = 2.220446049250313e-16
MATS_FIELDS = ("S", "Y", "D", "L", "W", "theta")


def mats_snapshot(mats):
    snap = {k: np.array(getattr(mats, k), copy=True) for k in MATS_FIELDS}
    snap["F0"] = np.array(mats.invMfactors[0], copy=True)
    snap["F1"] = np.array(mats.invMfactors[1], copy=True)
    return snap


def mats_same(a, b):
    return all(np.array_equal(a[k], b[k]) for k in a)


def regime(S, Y, n):
    """Is the history in the regime where floating point can represent its BFGS matrix to ~1e-7?
    Returns (ok, theta, B_dense, cond_middle, tol).  Conservative on purpose: numerical clauses are judged
    only where every source of amplification is <= 1e6 (the exact clauses are judged everywhere)."""
    sy = [float(s_ @ y_) for s_, y_ in zip(S, Y)]
    if not all(v > 0 for v in sy):
        return False, None, None, None, None
    thetas = [float(y_ @ y_) / v for y_, v in zip(Y, sy)]
    if not all(1e-6 <= t <= 1e6 for t in thetas):
        return False, None, None, None, None
    canc = max(EPS * float(np.linalg.norm(s_) * np.linalg.norm(y_)) / v for s_, y_, v in zip(S, Y, sy))
    if canc > 1e-10:
        return False, None, None, None, None
    theta = thetas[-1]
    Bd = dense_bfgs_B(S, Y, theta, n)
    ev = np.linalg.eigvalsh(0.5 * (Bd + Bd.T))
    if ev.min() <= 0 or ev.max() / ev.min() > 1e6:
        return False, None, None, None, None
    Sm, Ym = np.array(S).T, np.array(Y).T
    SY = Sm.T @ Ym
    invM_ref = np.block([[-np.diag(np.diag(SY)), np.tril(SY, -1).T], [np.tril(SY, -1), theta * (Sm.T @ Sm)]])
    cM = float(np.linalg.cond(invM_ref))
    if not np.isfinite(cM) or cM > 1e6:
        return False, None, None, None, None
    tol = max(1e-8, 1e3 * EPS * cM, 1e3 * canc)
    return True, theta, Bd, (cM, invM_ref), tol


class Sim:
    def __init__(self, n, maxcor, x0, g0):
        from lbfgsb.bfgsmats import LBFGSB_MATRICES

        self.n, self.maxcor = n, maxcor
        self.X = deque([np.array(x0, dtype=float)])
        self.G = deque([np.array(g0, dtype=float)])
        self.mats = LBFGSB_MATRICES(n)
        self.mX = [np.array(x0, dtype=float)]
        self.mG = [np.array(g0, dtype=float)]
        self.n_acc = self.n_rej = self.n_over = 0
        self.rej_after_acc = False
        self.gated = 0
        self.dead = False

    def step(self, s, y, expect, stats=None):
        """Offer the candidate (X[-1]+s, G[-1]+y).  expect in {'accept','reject',None}."""
        from lbfgsb.bfgsmats import update_lbfgs_matrices

        s = np.asarray(s, dtype=float)
        y = np.asarray(y, dtype=float)
        xk = self.mX[-1] + s
        gk = self.mG[-1] + y
        # the candidate pair is what floating point makes of it (after a huge gradient the
        # intended y may be absorbed): the expectation is re-derived from the actual differences
        sa, ya = xk - self.mX[-1], gk - self.mG[-1]
        sty, yty = float(sa @ ya), float(ya @ ya)
        noise = 64 * EPS * float(np.linalg.norm(sa) * np.linalg.norm(ya))
        if sty > EPS * yty + noise:
            expect = "accept"
        elif sty < EPS * yty - noise or (sty == 0.0 and yty == 0.0) or not np.any(sa):
            expect = "reject"
        else:
            expect = None
        before = mats_snapshot(self.mats)
        Xb = [v.copy() for v in self.X]
        Gb = [v.copy() for v in self.G]
        try:
            out = update_lbfgs_matrices(xk.copy(), gk.copy(), self.X, self.G, self.maxcor, self.mats, False, EPS)
        except np.linalg.LinAlgError as e:
            # a factorisation failed.  In the regime where the dense reference itself is numerically
            # singular (theta ~ 1/eps, cond > 1e8) this is the loss of all digits that the numerical
            # clauses are gated for; anywhere else it is a violation (the matrix must stay SPD).
            mX = self.mX + [xk]
            mG = self.mG + [gk]
            mX, mG = mX[-(self.maxcor + 1):], mG[-(self.maxcor + 1):]
            S = [mX[i + 1] - mX[i] for i in range(len(mX) - 1)]
            Y = [mG[i + 1] - mG[i] for i in range(len(mG) - 1)]
            th = float(Y[-1] @ Y[-1]) / float(S[-1] @ Y[-1]) if float(S[-1] @ Y[-1]) != 0 else np.inf
            ok_regime = regime(S, Y, self.n)[0]
            if ok_regime:
                raise Violation("update-raises", f"update_lbfgs_matrices raised {type(e).__name__}: {e} on a well-conditioned history ({len(S)} pairs, theta={th:.3e})")
            self.dead = True
            if stats is not None:
                stats.bump("histories-ended-by-factorisation-failure-in-gated-regime")
            return None
        self.mats = out
        accepted = len(self.X) >= 1 and np.array_equal(self.X[-1], xk) and (len(self.X) != len(Xb) or not np.array_equal(Xb[-1], xk) or len(Xb) == self.maxcor + 1)
        # decide acceptance robustly: the newest stored gradient is gk and the point is xk, and something changed
        changed = len(self.X) != len(Xb) or any(not np.array_equal(a, b) for a, b in zip(self.X, Xb))
        accepted = changed
        if expect == "accept":
            require(accepted, "curvature-test", f"candidate with s.y={float((xk - self.mX[-1]) @ (gk - self.mG[-1])):.3e} > eps*y.y was not stored")
        if expect == "reject":
            require(not accepted, "curvature-test", f"candidate with s.y={float((xk - self.mX[-1]) @ (gk - self.mG[-1])):.3e} <= eps*y.y was stored")
        if accepted:
            self.mX.append(xk)
            self.mG.append(gk)
            if len(self.mX) > self.maxcor + 1:
                self.mX.pop(0)
                self.mG.pop(0)
                self.n_over += 1
            self.n_acc += 1
        else:
            self.n_rej += 1
            if self.n_acc:
                self.rej_after_acc = True
            same = len(self.X) == len(Xb) and all(np.array_equal(a, b) for a, b in zip(self.X, Xb)) and all(np.array_equal(a, b) for a, b in zip(self.G, Gb))
            require(same, "rejected-update-leaves-memory-untouched", "X/G changed on a rejected update")
            require(mats_same(before, mats_snapshot(self.mats)), "rejected-update-leaves-matrix-untouched", "a matrix array changed on a rejected update")
        self.check(accepted, stats)
        return accepted

    def check(self, accepted, stats=None):
        n, m = self.n, self.maxcor
        require(len(self.X) - 1 <= m and len(self.X) == len(self.G), "at-most-maxcor-pairs", f"{len(self.X) - 1} pairs with maxcor {m}")
        require(len(self.X) == len(self.mX) and all(np.array_equal(a, b) for a, b in zip(self.X, self.mX)) and all(np.array_equal(a, b) for a, b in zip(self.G, self.mG)),
                "memory-equals-model(oldest-discarded)", f"stored points differ from the model list (lengths {len(self.X)} vs {len(self.mX)})")
        S = [self.mX[i + 1] - self.mX[i] for i in range(len(self.mX) - 1)]
        Y = [self.mG[i + 1] - self.mG[i] for i in range(len(self.mG) - 1)]
        for j, (s, y) in enumerate(zip(S, Y)):
            sty, yty = float(s @ y), float(y @ y)
            noise = 64 * EPS * float(np.linalg.norm(s) * np.linalg.norm(y))
            require(sty > EPS * yty - noise and sty > -noise, "stored-pairs-satisfy-curvature", f"pair {j}: s.y={sty!r} eps*y.y={EPS * yty!r}")
        if not S:
            return
        if not self.mats.use_factor:
            raise Violation("matrix-built", "pairs are stored but the matrices are still the initial ones")
        # arrays describing the pairs
        require(np.array_equal(np.asarray(self.mats.S), np.array(S).T) and np.array_equal(np.asarray(self.mats.Y), np.array(Y).T), "matrix-uses-stored-pairs",
                "mats.S / mats.Y are not the differences of the stored points")
        s_new, y_new = S[-1], Y[-1]
        theta_ref = float(y_new @ y_new) / float(s_new @ y_new)
        require(abs(self.mats.theta - theta_ref) <= 1e-12 * abs(theta_ref), "theta-of-newest-pair", f"theta={self.mats.theta!r} vs y.y/s.y={theta_ref!r}")
        ok, _, Bd, cm, tolB = regime(S, Y, n)
        if not ok:
            self.gated += 1
            if stats is not None:
                stats.bump("steps-gated(ill-conditioned)")
            return
        cM, invM_ref = cm
        Bc = compact_B_from_mats(self.mats, n)
        nb = float(np.linalg.norm(Bd, 2))
        dev = float(np.max(np.abs(Bc - Bd))) / nb
        if stats is not None:
            stats.maxi("max_compact_vs_dense_dev_over_tol", dev / tolB)
            stats.bump("steps-with-numerical-clauses-judged")
        require(dev <= tolB, "compact-form-equals-dense-bfgs", f"max|B_compact - B_dense|/|B| = {dev:.3e} (tol {tolB:.1e}) with {len(S)} pairs")
        require(float(np.max(np.abs(Bc - Bc.T))) <= tolB * nb, "symmetric", "B_compact not symmetric")
        evc = np.linalg.eigvalsh(0.5 * (Bc + Bc.T))
        require(evc.min() > 0, "positive-definite", f"smallest eigenvalue {evc.min():.3e}")
        sec = float(np.max(np.abs(Bc @ s_new - y_new)))
        require(sec <= tolB * (nb * float(np.linalg.norm(s_new)) + float(np.linalg.norm(y_new))), "secant-equation", f"|B s - y| = {sec:.3e}")
        # bmv against the explicit middle matrix
        from lbfgsb.bfgsmats import bmv

        invM = np.asarray(self.mats.invMfactors[0]) @ np.asarray(self.mats.invMfactors[1])
        v = np.arange(1, invM.shape[0] + 1, dtype=float)
        want = np.linalg.solve(invM_ref, v)
        got = bmv(self.mats.invMfactors, v)
        require(float(np.max(np.abs(got - want))) <= max(1e-7, 1e3 * EPS * cM) * (float(np.max(np.abs(want))) + 1e-300), "bmv-is-middle-matrix-product",
                f"bmv(v) != M v (cond {cM:.1e})")


def apply_ops(spec, stats=None):
    sim = Sim(spec["n"], spec["maxcor"], spec["x0"], spec["g0"])
    for op in spec["ops"]:
        sim.step(op["s"], op["y"], op.get("expect"), stats)
        if sim.dead:
            break
    return sim


def make_machine(state, stats):
    class M(RuleBasedStateMachine):
        def __init__(self):
            super().__init__()
            self.sim = None
            self.spec = None

        @initialize(n=st.integers(1, 12), maxcor=st.integers(1, 10), data=st.data())
        def init(self, n, maxcor, data):
            lam = [10.0 ** data.draw(grid(-1.0, 2.0, 30)) for _ in range(n)]
            nh = data.draw(st.integers(0, min(2, n - 1))) if n > 1 else 0
            Q = householder_Q([data.draw(vec(sgrid(1.0, 10), n)) for _ in range(nh)], n)
            self.A = (Q * np.array(lam)) @ Q.T
            x0 = data.draw(vec(sgrid(2.0, 20), n))
            g0 = data.draw(vec(sgrid(2.0, 20), n))
            self.spec = {"n": n, "maxcor": maxcor, "x0": x0, "g0": g0, "ops": []}
            self.sim = Sim(n, maxcor, x0, g0)

        def _do(self, s, y, expect):
            if not state["budget_left"]() or self.sim is None:
                return
            op = {"s": np.asarray(s, float).tolist(), "y": np.asarray(y, float).tolist(), "expect": expect}
            self.spec["ops"].append(op)
            try:
                self.sim.step(op["s"], op["y"], expect, stats)
                if self.sim.dead:
                    self.dead_sim, self.sim = self.sim, None
            except Violation as v:
                if state["note"]({k: (list(val) if k == "ops" else val) for k, val in self.spec.items()}, v):
                    raise
                # a different clause than the one being shrunk: stop using this machine
                self.sim = None

        @rule(data=st.data())
        def accepted_update(self, data):
            if self.sim is None:
                return
            n = self.sim.n
            s = np.array(data.draw(vec(sgrid(2.0, 40), n)))
            if not np.any(s):
                s[0] = 0.5
            y = self.A @ s
            u = np.array(data.draw(vec(sgrid(1.0, 10), n)))
            su = float(s @ u)
            if su != 0.0:
                w = data.draw(grid(-0.5, 0.5, 10)) * float(s @ y) / max(abs(su), 0.1 * float(np.linalg.norm(s) * np.linalg.norm(u)))
                y = y + w * u
            self._do(s, y, "accept")

        @rule(data=st.data(), kind=st.sampled_from(["reverse", "zero-step", "negative-projection"]))
        def rejected_update(self, data, kind):
            if self.sim is None:
                return
            n = self.sim.n
            s = np.array(data.draw(vec(sgrid(2.0, 40), n)))
            if not np.any(s):
                s[0] = 0.5
            if kind == "reverse":
                y = -(self.A @ s)
            elif kind == "zero-step":
                y = np.array(data.draw(vec(sgrid(1.0, 10), n)))
                s = np.zeros(n)
            else:
                u = np.array(data.draw(vec(sgrid(1.0, 10), n)))
                y = u - (float(u @ s) / float(s @ s)) * s - 0.1 * (np.linalg.norm(u) + 1.0) * s / np.linalg.norm(s)
            self._do(s, y, "reject")

        @rule(data=st.data(), c=st.sampled_from([None, None, None, None, None, 0.5, 0.9, 1.1, 2.0]))
        def marginal_update(self, data, c):
            if self.sim is None:
                return
            n = self.sim.n
            s = np.array(data.draw(vec(sgrid(2.0, 40), n)))
            if not np.any(s):
                s[0] = 0.5
            if c is not None:
                # y parallel to s with |y|/|s| = c/eps:  s.y > eps*y.y  <=>  c < 1
                # (a tiny step, so that the huge ratio does not leave gradients of size 1/eps behind)
                s = s * 1e-8
                y = (c / EPS) * s
                expect = "accept" if c < 1 else "reject"
            else:
                # near-orthogonal y: the curvature test is decided by rounding noise -> observed
                u = np.array(data.draw(vec(sgrid(1.0, 10), n)))
                y = u - (float(u @ s) / float(s @ s)) * s
                expect = None
            self._do(s, y, expect)

        def teardown(self):
            sim = self.sim if self.sim is not None else getattr(self, "dead_sim", None)
            if sim is not None and self.spec is not None and self.spec["ops"]:
                stats.case({"ops": self.spec["ops"], "n": self.spec["n"], "m": self.spec["maxcor"]},
                           sim.rej_after_acc and sim.n_over >= 1,
                           [f"steps={'1-10' if len(self.spec['ops']) <= 10 else '11-25' if len(self.spec['ops']) <= 25 else '26-40'}",
                            f"overflow={sim.n_over >= 1}", f"rej_after_acc={sim.rej_after_acc}"],
                           sample={"n": self.spec["n"], "maxcor": self.spec["maxcor"], "steps": len(self.spec["ops"]), "accepted": sim.n_acc, "rejected": sim.n_rej,
                                   "overflows": sim.n_over, "gated_steps": sim.gated,
                                   "ops": [("acc" if o["expect"] == "accept" else "rej" if o["expect"] == "reject" else "obs") for o in self.spec["ops"]]})

    return M


# ---- update sequences intercepted in real runs ------------------------------------------------


def intercepted_body(pspec, stats):
    from vf.observe import intercept, run_min
    from vf.specs import build

    if "run" in pspec:  # C13-style switch spec: the update function really rewrites the stored gradients
        from vf.props.c13 import make_switch_update

        prob = build(pspec["run"]["problem"])
        cfg = dict(pspec["run"]["cfg"])
        upd, _ = make_switch_update(prob, pspec["switch"], {})
        pspec = {"problem": pspec["run"]["problem"], "cfg": cfg, "switch": pspec["switch"]}
    else:
        prob = build(pspec["problem"])
        cfg = pspec["cfg"]
        upd = "identity" if pspec.get("upd") else None
    eps_given = float(cfg.get("eps_SY", EPS))
    with intercept(("update_lbfgs_matrices",)) as rec:
        tr = run_min(prob, cfg, update_fun_def=upd)
    calls = rec.get("update_lbfgs_matrices", [])
    if tr.exc is not None and "switch" not in pspec:
        raise tr.exc
    for k, e in enumerate(calls):
        # the memory handed to the routine (after a possible rewrite + filter) must already consist of
        # pairs that satisfy the curvature condition
        Xb, Gb = e.get("X_before", []), e.get("G_before", [])
        for j in range(len(Xb) - 1):
            sb, yb = Xb[j + 1] - Xb[j], Gb[j + 1] - Gb[j]
            require(float(sb @ yb) > EPS * float(yb @ yb) - 64 * EPS * float(np.linalg.norm(sb) * np.linalg.norm(yb)), "stored-pairs-satisfy-curvature",
                    f"[in-run] call {k}: the memory handed to the update holds pair {j} with s.y={float(sb @ yb)!r}, y.y={float(yb @ yb)!r}")
        if "exc" in e:
            continue
        Xa, Ga = e["X_after"], e["G_after"]
        # the candidate of this call was stored iff it appears as the newest point afterwards: it must then
        # satisfy the curvature condition with the threshold the *user* gave (eps_SY)
        if len(Xa) >= 2 and len(Xb) >= 1 and not any(np.array_equal(Xa[-1], q) for q in Xb):
            sn, yn = Xa[-1] - Xa[-2], Ga[-1] - Ga[-2]
            require(float(sn @ yn) > eps_given * float(yn @ yn) - 64 * EPS * float(np.linalg.norm(sn) * np.linalg.norm(yn)), "stored-pairs-satisfy-curvature",
                    f"[in-run] call {k}: a pair with s.y={float(sn @ yn)!r} <= eps_SY*y.y={eps_given * float(yn @ yn)!r} (eps_SY={eps_given!r}) was stored")
        mats = e["out"]
        maxcor = e["args"][4]
        n = Xa[0].size
        require(len(Xa) - 1 <= maxcor, "at-most-maxcor-pairs", f"[in-run] {len(Xa) - 1} pairs with maxcor {maxcor}")
        S = [Xa[i + 1] - Xa[i] for i in range(len(Xa) - 1)]
        Y = [Ga[i + 1] - Ga[i] for i in range(len(Ga) - 1)]
        if not S:
            continue
        for j, (s, y) in enumerate(zip(S, Y)):
            require(float(s @ y) > EPS * float(y @ y) - 64 * EPS * float(np.linalg.norm(s) * np.linalg.norm(y)), "stored-pairs-satisfy-curvature",
                    f"[in-run] call {k}: stored pair {j} has s.y={float(s @ y)!r}, y.y={float(y @ y)!r}")
        if not mats.use_factor:
            continue
        if not (np.array_equal(np.asarray(mats.S), np.array(S).T) and np.array_equal(np.asarray(mats.Y), np.array(Y).T)):
            # legitimately stale only if this call rejected the candidate AND the memory did not change since the matrices were built
            raise Violation("matrix-uses-stored-pairs", f"[in-run] call {k}: matrices do not describe the stored pairs")
        ok, theta, Bd, cm, tolB = regime(S, Y, n)
        if not ok:
            stats.bump("steps-gated(ill-conditioned)")
            continue
        Bc = compact_B_from_mats(mats, n)
        dev = float(np.max(np.abs(Bc - Bd))) / float(np.linalg.norm(Bd, 2))
        require(dev <= tolB, "compact-form-equals-dense-bfgs", f"[in-run] call {k}: rel dev {dev:.3e} (tol {tolB:.1e})")
        require(np.linalg.eigvalsh(0.5 * (Bc + Bc.T)).min() > 0, "positive-definite", f"[in-run] call {k}")
        stats.case({"X": [x.tolist() for x in Xa], "G": [g.tolist() for g in Ga]}, len(S) >= 2, ["src=in-run" + ("-redefinition" if "switch" in pspec else ""), f"pairs={min(len(S), 3)}"],
                   sample={"from_run": pspec["problem"]["obj"]["family"], "call": k, "pairs": len(S), "theta": theta})


@st.composite
def run_strategy(draw):
    from vf.runspec import run_spec
    from vf.specs import ALL_FAMILIES

    r = draw(run_spec(families=ALL_FAMILIES, n_max=8, jac_modes=("callable",), maxiter=(1, 25), maxfun=(3, 150), small_ls=draw(st.booleans()), ftols=(0.0,), gtols=(1e-8,)))
    eps_sy = draw(st.sampled_from([None, None, 1e-3, 0.03, 0.1]))
    if eps_sy is not None:
        r["cfg"]["eps_SY"] = eps_sy
    return {"problem": r["problem"], "cfg": r["cfg"], "upd": draw(st.booleans())}


def restart_keeps_newest(spec, stats):
    """'The oldest pair is the one discarded when the memory is full' also when the memory is refilled from a
    checkpoint with a smaller maxcor: the restarted memory must hold the checkpoint's newest pairs."""
    from vf.observe import run_min
    from vf.props.c06 import check_pairs
    from vf.specs import build

    rspec = spec["run"]
    prob = build(rspec["problem"])
    cfg = dict(rspec["cfg"])
    first = run_min(prob, cfg)
    if first.exc is not None:
        raise first.exc
    npairs = first.res["sk"].shape[0]
    if npairs < 2:
        stats.case(spec, False, ["src=restart", "too-few-pairs"])
        return
    m2 = max(1, min(spec["m2"], npairs - 1))
    c2 = dict(cfg)
    c2["maxcor"] = m2
    c2["maxiter"] = first.res["nit"]
    rs = run_min(prob, c2, checkpoint=first.result, x0=np.array(first.result.x, copy=True))
    if rs.exc is not None:
        raise Violation("restart-accepted", f"restart raised {type(rs.exc).__name__}: {rs.exc}")
    check_pairs(first.res, rs.res, m2, "oldest-discarded-at-restart")
    stats.case(spec, npairs - m2 >= 2, ["src=restart", f"dropped={min(npairs - m2, 3)}"], sample={"pairs_in_checkpoint": npairs, "maxcor_at_restart": m2})


@st.composite
def restart_strategy(draw):
    from vf.runspec import run_spec
    from vf.specs import ALL_FAMILIES

    r = draw(run_spec(families=ALL_FAMILIES, n_max=8, jac_modes=("callable",), maxiter=(3, 20), maxfun=(400, 400), ftols=(0.0,), gtols=(1e-10,), maxcor_max=10))
    return {"run": r, "m2": draw(st.integers(1, 8))}


def shard(ctx):
    ctx.machine("histories", make_machine, ctx.pick(1500, 40000), 40)
    ctx.hyp("restart-keeps-newest", restart_strategy(), restart_keeps_newest, ctx.pick(1200, 20000))
    ctx.hyp("in-run", run_strategy(), intercepted_body, ctx.pick(600, 10000))
    from vf.props.c13 import switch_strategy

    ctx.hyp("in-run-redefinition", switch_strategy(), intercepted_body, ctx.pick(1500, 20000))


def replay(spec):
    if "m2" in spec:
        from vf.core import Stats

        restart_keeps_newest(spec, Stats())
    elif "ops" in spec:
        apply_ops(spec, None)
    else:
        from vf.core import Stats

        intercepted_body(spec, Stats())
