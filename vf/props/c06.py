"""C06 -- restarting from a returned result continues the run as if it had not stopped.

Differential oracle: restarted run vs. the run that was not stopped."""

from __future__ import annotations

import copy

import numpy as np
from hypothesis import strategies as st

from vf.core import Discard, Violation, require
from vf.observe import MSG_ITER, continuation_is_well_conditioned, run_min, snapshot_state
from vf.runspec import run_spec
from vf.specs import ALL_FAMILIES, build

ID = "C06"
LEVEL = "exploration"
RULE = (
    "Hypothesis draws a problem (all families/boxes/starts, callable gradient, no scaler), maxcor 1..10, a horizon K in 2..25 and split points k (3 drawn in quick, every k in thorough), "
    "a chain of up to 4 restarts and optionally a reduced maxcor. For each split: run(maxiter=k) -> checkpoint; restart(maxiter=k) must return the checkpoint's newest pairs; "
    "restart(maxiter=k+1) must land on the iterate of run(maxiter=k+1). non-trivial = checkpoint holds >=2 pairs and >=1 variable on a bound at x_k, or the chain has >=2 restarts, "
    "or maxcor is reduced below the number of stored pairs, or the newest step before the split was not stored as a pair (rejected curvature; a dedicated non-convex boxed generator aims at it); distinct = distinct (run spec, split)"
)
ASSUMPTIONS = [
    "pairs are stored as differences in the checkpoint and as points in memory, so 'same pairs' is judged up to the rounding of rebuilding points and differencing again: 4(m+2)*eps*max|chain|",
    "next iterate compared to 1e-7 of the step plus 1e-9*max(1,|x|) (restart perturbs the pairs by one ulp)",
    "restart that re-supplies a gradient_scaler is excluded by construction and probed separately (known finding R12)",
]
EPS = 2.220446049250313e-16


def base_cfg(rspec):
    return dict(rspec["cfg"])


def fresh(prob, cfg, maxiter):
    c = dict(cfg)
    c["maxiter"] = maxiter
    return run_min(prob, c)


def restart(prob, cfg, ckpt, maxiter, maxcor=None):
    c = dict(cfg)
    c["maxiter"] = maxiter
    if maxcor is not None:
        c["maxcor"] = maxcor
    return run_min(prob, c, checkpoint=ckpt, x0=np.array(ckpt.x, copy=True))


def chain_scale(x, sk):
    pts = [np.abs(x)]
    cur = np.array(x, dtype=float)
    for s in sk[::-1]:
        cur = cur - s
        pts.append(np.abs(cur))
    return float(np.max(pts)) if pts else 0.0


def check_pairs(ck, rs, m_new, tag):
    """Clause (a): restart without iteration returns the newest min(m_new, stored) pairs."""
    npairs = ck["sk"].shape[0]
    keep = min(m_new, npairs)
    want_s = ck["sk"][npairs - keep:]
    want_y = ck["yk"][npairs - keep:]
    got_s, got_y = rs["sk"], rs["yk"]
    if keep == 0:
        require(got_s.size == 0, f"same-pairs[{tag}]", f"checkpoint has no pair but restart returns {got_s.shape}")
        return 0.0
    require(got_s.shape == want_s.shape and got_y.shape == want_y.shape, f"same-pairs[{tag}]",
            f"restart returns {got_s.shape[0]} pairs, checkpoint holds {npairs}, maxcor at restart {m_new} -> expected {keep}")
    m = max(npairs, 1)
    c = 4.0 * (m + 2)
    tol_s = c * EPS * max(chain_scale(ck["x"], ck["sk"]), 1e-300)
    tol_y = c * EPS * max(chain_scale(ck["jac"], ck["yk"]), 1e-300)
    ds = float(np.max(np.abs(got_s - want_s)))
    dy = float(np.max(np.abs(got_y - want_y)))
    require(ds <= tol_s and dy <= tol_y, f"same-pairs[{tag}]",
            f"restart pairs differ from the checkpoint's newest {keep}: max|ds|={ds:.3e} (tol {tol_s:.1e}), max|dy|={dy:.3e} (tol {tol_y:.1e}); "
            f"checkpoint sk[-1]={want_s[-1].tolist()} restart sk[-1]={got_s[-1].tolist()}")
    return max(ds / tol_s, dy / tol_y)


def check_next(ref_k, ref_k1, rs, tag, ref_trace=None, rs_trace=None, stats=None, probe=None):
    """Clause (b): next iterate and nit.  ref_trace / rs_trace (optional): the Trace objects of the
    uninterrupted run(maxiter=k+1) and of the restarted run, used to tell a wrong memory (the first trial
    point of the next line search differs) from a discrete line-search decision that flipped on the
    one-ulp perturbation of the rebuilt pairs (same first trial point, different number of trials)."""
    step = float(np.max(np.abs(ref_k1["x"] - ref_k["x"])))
    tol = 1e-7 * step + 1e-9 * max(1.0, float(np.max(np.abs(ref_k1["x"]))))
    dev = float(np.max(np.abs(rs["x"] - ref_k1["x"])))
    if dev > tol and ref_trace is not None and rs_trace is not None:
        ref_trials = [p for p, _ in ref_trace.fun_calls[ref_k["nfev"] - (ref_trace.res["nfev"] - len(ref_trace.fun_calls)):]]
        rs_trials = [p for p, _ in rs_trace.fun_calls]
        if ref_trials and rs_trials:
            d0 = float(np.max(np.abs(ref_trials[0] - rs_trials[0])))
            s0 = float(np.max(np.abs(ref_trials[0] - ref_k["x"])))
            if d0 <= 1e-7 * s0 + 1e-9 * max(1.0, float(np.max(np.abs(ref_trials[0])))) and len(ref_trials) != len(rs_trials):
                if stats is not None:
                    stats.bump("line-search-decision-flipped-on-rounding(not judged)")
                return 0.0
    if dev > tol and probe is not None and not probe(tol):
        # conditioning probe (vf.observe.continuation_is_well_conditioned): the restarted continuation itself moves by more than
        # the tolerance when its checkpoint changes in the last bits, so the iterate is not a function of the state at this precision
        if stats is not None:
            stats.bump("next-iterate-chaotic-under-1ulp-perturbation(not judged)")
        return 0.0
    require(dev <= tol, f"next-iterate[{tag}]",
            f"restart lands {dev:.3e} from the uninterrupted iterate (step {step:.3e}, tol {tol:.3e}); nit ref={ref_k1['nit']} restart={rs['nit']}")
    require(rs["nit"] == ref_k1["nit"], f"nit-resumed[{tag}]", f"restart nit={rs['nit']} uninterrupted nit={ref_k1['nit']}")
    dn_ref = (ref_k1["nfev"] - ref_k["nfev"], ref_k1["njev"] - ref_k["njev"])
    dn_rs = (rs["nfev"] - ref_k["nfev"], rs["njev"] - ref_k["njev"])
    # Evaluation counts of the two continuations are *not* compared: the restarted process has lost the
    # one-cell evaluation memo, and a Wolfe test can flip on the one-ulp perturbation of the rebuilt pairs
    # (one more trial, same iterate).  "Counters = checkpoint's + calls since" is C05's exact clause; here
    # only: the counters resume from the checkpoint (they never fall below it).
    require(dn_rs[0] >= 0 and dn_rs[1] >= 0, f"counters-resumed[{tag}]", f"restart counters fell below the checkpoint's: increments {dn_rs}")
    if stats is not None and dn_rs != dn_ref:
        stats.bump("evaluation-count-differs-from-uninterrupted(not judged)")
    return dev / tol if tol > 0 else 0.0


def check(spec, stats=None):
    rspec = spec["run"]
    prob = build(rspec["problem"])
    cfg = base_cfg(rspec)
    cfg["maxfun"] = 100000  # the premise is "stopped by maxiter"
    K = spec["K"]
    cK = dict(cfg)
    cK["maxiter"] = K
    full = run_min(prob, cK, callback="passive")
    if full.exc is not None:
        raise full.exc
    x_of = {c["snap"]["nit"]: c["xk"] for c in full.cb}
    x_of[0] = np.clip(prob.x0, prob.lb, prob.ub)
    nit_full = full.res["nit"]
    if nit_full < 2:
        if stats is not None:
            stats.case(spec, False, ["short-run"])
        return
    m = cfg["maxcor"]
    ks = sorted(set(min(max(1, k), nit_full - 1) for k in spec["splits"])) if spec["splits"] != "all" else list(range(1, nit_full))
    for k in ks:
        A = fresh(prob, cfg, k)
        if A.exc is not None:
            raise A.exc
        if A.res["message"] != MSG_ITER or A.res["nit"] != k:
            continue  # premise: stopped by maxiter
        B = fresh(prob, cfg, k + 1)
        if B.exc is not None:
            raise B.exc
        ck = A.res
        labels = [f"pairs={min(ck['sk'].shape[0], 3)}{'+' if ck['sk'].shape[0] > 3 else ''}"]
        # was some step before the split not stored (curvature test failed)?  Then the newest stored
        # pair does not end at x_k and the checkpoint's history is a translated copy of the real one.
        unstored = bool(ck["sk"].shape[0] >= 1 and k in x_of and (k - 1) in x_of and not np.array_equal(ck["sk"][-1], x_of[k] - x_of[k - 1]))
        labels.append(f"newest-step-unstored={unstored}")
        # (a) no-iteration restart, maxcor kept
        R0 = restart(prob, cfg, A.result, k)
        if R0.exc is not None:
            raise Violation("restart-accepted", f"restart from the result of run(maxiter={k}) raised {type(R0.exc).__name__}: {R0.exc}")
        ra = check_pairs(ck, R0.res, m, "maxcor-kept")
        require(R0.res["nit"] == k and R0.res["nfev"] == ck["nfev"] and R0.res["njev"] == ck["njev"], "no-iteration-restart-is-free",
                f"no-iteration restart: nit {R0.res['nit']} (want {k}), nfev {R0.res['nfev']} (want {ck['nfev']}), njev {R0.res['njev']} (want {ck['njev']})")
        # (b) one more iteration
        R1 = restart(prob, cfg, A.result, k + 1)
        if R1.exc is not None:
            raise Violation("restart-accepted", f"restart(maxiter={k + 1}) raised {type(R1.exc).__name__}: {R1.exc}")
        rb = check_next(ck, B.res, R1.res, "single", B, R1, stats,
                        probe=lambda tol: continuation_is_well_conditioned(lambda c: restart(prob, cfg, c, k + 1), A.result, R1.res["x"], tol))
        if stats is not None:
            stats.maxi("max_pair_dev_over_tol", ra)
            stats.maxi("max_next_iterate_dev_over_tol", rb)
        # (c) reduced maxcor
        reduced = False
        if spec.get("reduce") and ck["sk"].shape[0] >= 2:
            m2 = max(1, min(spec["reduce"], ck["sk"].shape[0] - 1))
            R2 = restart(prob, cfg, A.result, k, maxcor=m2)
            if R2.exc is not None:
                raise Violation("restart-accepted", f"restart with maxcor={m2} raised {type(R2.exc).__name__}: {R2.exc}")
            check_pairs(ck, R2.res, m2, "maxcor-reduced")
            reduced = True
            labels.append("maxcor-reduced")
        # chain: restart again from restarted runs
        chain_len = 0
        cur = R1
        for j in range(spec.get("chain", 0)):
            kk = cur.res["nit"]
            if cur.res["message"] != MSG_ITER:
                break
            nxt_ref = restart(prob, cfg, A.result, kk + 1) if j == 0 else restart(prob, cfg, prev_ck, kk + 1)
            r0 = restart(prob, cfg, cur.result, kk)
            if r0.exc is not None or nxt_ref.exc is not None:
                raise Violation("restart-accepted", f"chained restart raised {r0.exc or nxt_ref.exc}")
            check_pairs(cur.res, r0.res, m, f"chain")
            r1 = restart(prob, cfg, cur.result, kk + 1)
            if r1.exc is not None:
                raise Violation("restart-accepted", f"chained restart raised {r1.exc}")
            if nxt_ref.res["nit"] == kk + 1 or nxt_ref.res["nit"] == r1.res["nit"]:
                check_next(cur.res, nxt_ref.res, r1.res, "chain", None, None, stats,
                           probe=lambda tol: continuation_is_well_conditioned(lambda c: restart(prob, cfg, c, kk + 1), cur.result, r1.res["x"], tol))
            prev_ck = cur.result
            cur = r1
            chain_len += 1
        if stats is not None:
            on_bound = prob.n_on_bound(ck["x"]) >= 1
            nt = (ck["sk"].shape[0] >= 2 and on_bound) or chain_len >= 2 or reduced or unstored
            labels += [f"chain={chain_len}", f"onbound={on_bound}"]
            stats.case({"run": rspec, "k": k, "reduce": spec.get("reduce"), "chain": spec.get("chain")}, nt, labels,
                       sample={"family": rspec["problem"]["obj"]["family"], "n": prob.n, "maxcor": m, "K": K, "k": k, "pairs_in_checkpoint": int(ck["sk"].shape[0]),
                               "chain": chain_len, "reduced_maxcor": spec.get("reduce") if reduced else None})


@st.composite
def strategy(draw, all_splits=False):
    r = draw(run_spec(families=ALL_FAMILIES, n_max=8, jac_modes=("callable",), maxiter=(2, 25), maxfun=(1000, 1000),
                      ftols=(0.0,), gtols=(1e-10,), allow_degenerate=True))
    K = r["cfg"]["maxiter"]
    splits = "all" if all_splits else draw(st.lists(st.integers(1, 24), min_size=1, max_size=3))
    return {"run": r, "K": K, "splits": splits, "reduce": draw(st.sampled_from([None, 1, 2, 3, 5])), "chain": draw(st.sampled_from([0, 0, 1, 2, 3, 4]))}


@st.composite
def nonconvex_boxed_strategy(draw):
    """Aimed at checkpoints whose newest step was not stored (rejected curvature pair) while variables sit on bounds."""
    r = draw(run_spec(families=("sines", "badscale", "rosenbrock", "bench", "sines"), n_max=6, jac_modes=("callable",), maxiter=(3, 20), maxfun=(1000, 1000),
                      ftols=(0.0,), gtols=(1e-10,), allow_degenerate=False, box_mode="boxed", narrow=draw(st.booleans())))
    return {"run": r, "K": r["cfg"]["maxiter"], "splits": "all", "reduce": draw(st.sampled_from([None, None, 1, 2])), "chain": draw(st.sampled_from([0, 0, 1, 2]))}


def shard(ctx):
    if ctx.tier == "quick":
        ctx.hyp("splits", strategy(False), check, 3000)
        ctx.hyp("nonconvex-boxed-all-splits", nonconvex_boxed_strategy(), check, 1200)
    else:
        ctx.hyp("splits", strategy(False), check, 20000)
        ctx.hyp("all-splits", strategy(True), check, 8000)
        ctx.hyp("nonconvex-boxed-all-splits", nonconvex_boxed_strategy(), check, 12000)


def replay(spec):
    check(spec, None)
