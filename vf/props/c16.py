"""C16 -- finite-difference modes work at the bounds and agree with exact gradients."""

from __future__ import annotations

import numpy as np
from contextlib import contextmanager

from hypothesis import strategies as st

from vf.core import Discard, Violation, require
from vf.observe import run_min
from vf.specs import CONVEX_FAMILIES, build, problem_spec

ID = "C16"
LEVEL = "exploration"
RULE = (
    "Hypothesis draws convex problems (kappa<=100) and the package's benchmark functions with narrow boxes of every kind (incl. lb==ub), starts on faces/vertices, and runs them with "
    "jac in {None, '2-point', '3-point', 'cs'}, eps in {1e-8,1e-6} or a per-variable array, finite_diff_rel_step in {None,1e-7} or a per-variable array; half of the cases are preceded by another "
    "run of another size with another scheme and coarse or per-variable steps. Oracle: no exception escapes; every stencil point inside the box; every differencing request of the run evaluates exactly the stencil points (projected onto the box) "
    "and serves exactly the gradient that scipy.optimize's approx_derivative gives for the *requested* options with f0 = f(x) (differential), and for 'cs' agrees with the exact gradient to 1e-4; "
    "nfev equals the number of objective calls logged (stencil points included); on the convex families the final value matches the exact-gradient run to 1e-6*(1+|f|). "
    "non-trivial = some iterate of the run has a component on a bound and >=1 bound is active at the result; distinct = distinct (problem, mode, options)"
)
ASSUMPTIONS = [
    "differencing error of the gradient is <= 1e-8*L*|x| (2-point) and enters the optimal value quadratically, so 1e-6 relative is loose by orders of magnitude yet far below a stalled run",
]


@contextmanager
def fd_watch():
    """Records every differencing request the package makes (x0, f0 and the points it evaluates) by wrapping the name
    `approx_derivative` in lbfgsb.scalar_function from outside.  If a refactoring removes that name, nothing is recorded
    and the clause built on it is counted as not judged."""
    import lbfgsb.scalar_function as SF

    orig = getattr(SF, "approx_derivative", None)
    log = []
    if orig is not None:
        def wrapper(fun, x0, *a, **k):
            pts = []

            def rec(x):
                v = fun(x)
                pts.append(np.array(x, copy=True))
                return v

            e = {"x0": np.array(x0, copy=True), "f0": k.get("f0"), "pts": pts, "out": None}
            log.append(e)
            out = orig(rec, x0, *a, **k)
            e["out"] = np.array(out, copy=True)
            return out

        SF.approx_derivative = wrapper
    try:
        yield log if orig is not None else None
    finally:
        if orig is not None:
            SF.approx_derivative = orig


def requested_scheme(mode, spec):
    """The differencing scheme the *caller* asked for, as arguments of scipy's approx_derivative."""
    if mode is None:
        return {"method": "2-point", "abs_step": np.asarray(spec["eps"], dtype=float) if isinstance(spec["eps"], list) else spec["eps"], "rel_step": None}
    rel = spec["rel"]
    return {"method": mode, "rel_step": np.asarray(rel, dtype=float) if isinstance(rel, list) else rel, "abs_step": None}


def check_stencils(prob, mode, spec, fdlog, stats):
    """Differential oracle against SciPy's own approx_derivative called with the options of the run's specification: the
    package must evaluate exactly those stencil points (projected onto the box) and serve exactly that gradient."""
    from scipy.optimize._numdiff import approx_derivative

    lb, ub = prob.lb, prob.ub
    opts = requested_scheme(mode, spec)
    judged = 0
    for e in fdlog[:40]:
        x0 = e["x0"]
        if e["out"] is None:
            continue
        if x0.shape != lb.shape or np.shape(e["out"]) != lb.shape:
            # the package differences over a subset of the variables (a legitimate organisation of the work):
            # the request cannot be compared one-to-one with the full-space scheme
            if stats is not None:
                stats.bump("differencing-request-in-a-reduced-space(not compared)")
            continue
        f0 = prob.obj.f(x0)
        require(e["f0"] is not None and float(e["f0"]) == float(f0), "base-value-is-f(x)", f"jac={mode!r}: differencing at x uses f0={e['f0']!r} but f(x)={f0!r}")
        ref_pts = []

        def rec(x):
            xr = np.clip(x, lb, ub) if not np.iscomplexobj(x) else x
            ref_pts.append(np.array(xr, copy=True))
            return prob.obj.f(xr)

        ref = approx_derivative(rec, x0, f0=f0, bounds=(lb, ub), **opts)
        got = [np.clip(p, lb, ub) if not np.iscomplexobj(p) else p for p in e["pts"]]
        same = len(got) == len(ref_pts) and all(np.array_equal(a, b) for a, b in zip(got, ref_pts))
        if not same:
            k = next((i for i, (a, b) in enumerate(zip(got, ref_pts)) if not np.array_equal(a, b)), min(len(got), len(ref_pts)))
            raise Violation("stencil-is-the-requested-scheme",
                            f"jac={mode!r} eps={spec.get('eps')!r} rel={spec.get('rel')!r}: at x={x0.tolist()} the package evaluates {len(got)} stencil points, the requested scheme {len(ref_pts)}; "
                            f"first difference at #{k}: {got[k].tolist() if k < len(got) else None} vs {ref_pts[k].tolist() if k < len(ref_pts) else None}")
        fixed = lb == ub
        gref = np.where(fixed, 0.0, ref)
        gout = np.where(fixed, 0.0, e["out"])
        ok = np.array_equal(np.isnan(gref), np.isnan(gout)) and float(np.nanmax(np.abs(gref - gout), initial=0.0)) <= 1e-12 * (1.0 + float(np.nanmax(np.abs(gref), initial=0.0)))
        require(ok, "gradient-is-the-requested-scheme", f"jac={mode!r}: differenced gradient at x={x0.tolist()} is {gout.tolist()} but the requested scheme gives {gref.tolist()}")
        if mode == "cs" and not (prob.obj.name == "bench:ackley" and float(np.linalg.norm(x0)) < 0.15):
            # "agree with exact gradients": the complex step has no subtractive cancellation, so it reproduces the exact
            # gradient to rounding whatever the step (the real-valued schemes carry eps*|f|/h of noise and are judged
            # through the optimal value only); Ackley is not differentiable at the origin
            gex = np.where(fixed, 0.0, np.asarray(prob.obj.g(x0), dtype=float))
            if np.all(np.isfinite(gex)) and np.all(np.isfinite(gout)):
                err = float(np.max(np.abs(gout - gex)))
                tol_g = 1e-4 * (1.0 + float(np.max(np.abs(gex))))
                require(err <= tol_g, "differenced-gradient-agrees-with-exact-gradient",
                        f"jac={mode!r}: at x={x0.tolist()} the differenced gradient {gout.tolist()} is {err:.3e} away from the exact gradient {gex.tolist()}")
        judged += 1
    if stats is not None:
        stats.bump("differencing-requests-compared-with-scipy", judged)


def scheme_is_accurate(prob, mode, spec, points):
    """Does the *requested* differencing scheme (as SciPy computes it, independently of the package) resolve the gradient at
    the given iterates?  A user-chosen relative step degenerates at a component that is tiny but not zero (h = rel*|x_i|
    = 1e-26: the difference quotient is 0/h), and then "the accuracy of the differencing scheme" is nil -- the optimal
    value cannot be expected to match."""
    from scipy.optimize._numdiff import approx_derivative

    lb, ub = prob.lb, prob.ub
    opts = requested_scheme(mode, spec)
    free = lb != ub
    for x in points:
        x = np.clip(np.asarray(x, dtype=float), lb, ub)
        try:
            gfd = approx_derivative(lambda z: prob.obj.f(np.clip(z, lb, ub) if not np.iscomplexobj(z) else z), x, f0=prob.obj.f(x), bounds=(lb, ub), **opts)
        except Exception:
            return False
        gex = np.asarray(prob.obj.g(x), dtype=float)
        if not np.all(np.isfinite(gfd[free])) or float(np.max(np.abs(gfd[free] - gex[free]), initial=0.0)) > 1e-4 * (1.0 + float(np.max(np.abs(gex), initial=0.0))):
            return False
    return True


def polluter(spec):
    """A run made just before the judged one, with other differencing options and another size: it must leave nothing behind."""
    b = spec.get("before")
    if not b:
        return
    pb = build(b["problem"])
    cfg = {"maxcor": 3, "maxiter": 2, "maxfun": 200, "maxls": 5, "ftol": 1e-14, "gtol": 1e-7}
    if b["jac"] is None:
        cfg["eps"] = b["eps"]
    elif b["jac"] != "callable":
        cfg["finite_diff_rel_step"] = b["rel"]
    run_min(pb, cfg, jac_mode=b["jac"])


def check(spec, stats=None):
    prob = build(spec["problem"])
    mode = spec["jac"]
    cfg = {"maxcor": spec["maxcor"], "maxiter": 300, "maxfun": 30000, "maxls": 20, "ftol": 1e-14, "gtol": 1e-7}
    if mode is None:
        cfg["eps"] = spec["eps"]
    else:
        cfg["finite_diff_rel_step"] = spec["rel"]
    polluter(spec)
    with fd_watch() as fdlog:
        tr = run_min(prob, cfg, jac_mode=mode, callback="passive")
    lb, ub = prob.lb, prob.ub
    if tr.exc is not None:
        import traceback

        frames = traceback.extract_tb(tr.exc.__traceback__)
        bound_related = any("_numdiff" in fr.filename for fr in frames) or "bound" in str(tr.exc).lower()
        if bound_related:
            raise Violation("no-exception-at-bounds", f"jac={mode!r}: {type(tr.exc).__name__}: {str(tr.exc)[:200]}")
        # e.g. a Cholesky breakdown of the memory matrix on a noisy non-convex run: not "because an
        # iterate touches or grazes a bound"; outside this property, counted
        if stats is not None:
            stats.bump("other-exception-not-judged:" + type(tr.exc).__name__)
        raise Discard("exception unrelated to bounds: " + type(tr.exc).__name__)
    for x, _ in tr.fun_calls:
        xr = np.real(x)
        if not (np.all(xr >= lb) and np.all(xr <= ub)):
            i = int(np.nonzero((xr < lb) | (xr > ub))[0][0])
            raise Violation("stencil-inside-box", f"jac={mode!r}: objective evaluated at component {i} = {xr[i]!r} outside [{lb[i]!r}, {ub[i]!r}]")
    require(tr.res["nfev"] == tr.nf, "nfev-counts-stencil-evaluations", f"jac={mode!r}: nfev={tr.res['nfev']} but the objective was called {tr.nf} times")
    require(tr.res["message"] not in ("START", "RESTART_FROM_LNSRCH"), "documented-message", f"jac={mode!r}: message {tr.res['message']!r}")
    if fdlog is None:
        if stats is not None:
            stats.bump("differencing-requests-not-observable(clause not judged)")
    else:
        check_stencils(prob, mode, spec, fdlog, stats)
    compared = False
    if prob.obj.convex:
        ex = run_min(prob, cfg, jac_mode="callable")
        if ex.exc is not None:
            raise ex.exc
        f_fd = float(prob.obj.f(tr.res["x"]))
        f_ex = float(prob.obj.f(ex.res["x"]))
        tol = 1e-6 * (1.0 + abs(f_ex))
        if abs(f_fd - f_ex) > tol and not scheme_is_accurate(prob, mode, spec, [np.clip(prob.x0, lb, ub)] + [c["xk"] for c in tr.cb[-30:]] + [tr.res["x"]]):
            # "to the accuracy of the differencing scheme": here the scheme the caller asked for does not resolve the gradient at
            # some iterate of the run (the package evaluated exactly the requested stencil -- that is judged above)
            if stats is not None:
                stats.bump("requested-scheme-does-not-resolve-the-gradient(value clause not judged)")
        else:
            if stats is not None:
                stats.maxi("max_value_gap_over_tol", (f_fd - f_ex) / tol)
            require(abs(f_fd - f_ex) <= tol, "value-matches-exact-gradient-run",
                    f"jac={mode!r}: f_FD={f_fd!r} ({tr.res['message']}) vs f_exact={f_ex!r} ({ex.res['message']}); gap {f_fd - f_ex:.3e} > {tol:.1e}")
            compared = True
    if stats is not None:
        touched = any(bool(np.any(((c["xk"] == lb) | (c["xk"] == ub)) & (lb != ub))) for c in tr.cb) or bool(np.any(((np.clip(prob.x0, lb, ub) == lb) | (np.clip(prob.x0, lb, ub) == ub)) & (lb != ub)))
        active = bool(np.any(((tr.res["x"] == lb) | (tr.res["x"] == ub))))
        stats.case(spec, touched and active and tr.res["nit"] >= 1,
                   [f"jac={mode}", f"compared={compared}", f"active_at_result={active}", f"degenerate_side={bool(np.any(lb == ub))}", f"msg={tr.res['message'][:26]}"],
                   sample={"family": spec["problem"]["obj"].get("bench", spec["problem"]["obj"]["family"]), "n": prob.n, "jac": mode, "eps": spec.get("eps"), "rel": spec.get("rel"),
                           "nit": tr.res["nit"], "nfev": tr.res["nfev"], "active_bounds_at_result": int(np.count_nonzero((tr.res["x"] == lb) | (tr.res["x"] == ub)))})


@st.composite
def strategy(draw):
    mode = draw(st.sampled_from([None, "2-point", "3-point", "cs"]))
    fams = list(CONVEX_FAMILIES) * 2 + ["bench"]
    p = draw(problem_spec(families=fams, n_max=8, narrow=True, kappa_max_exp=2.0, box_mode=draw(st.sampled_from(["mixed", "boxed", "boxed"]))))
    n = p["obj"]["n"]
    out = {"problem": p, "jac": mode, "maxcor": draw(st.integers(1, 10)), "eps": draw(st.sampled_from([1e-8, 1e-6])), "rel": draw(st.sampled_from([None, 1e-7]))}
    k = draw(st.integers(0, 3))
    if k == 0:  # per-variable steps
        out["eps"] = [draw(st.sampled_from([1e-8, 1e-7, 1e-6])) for _ in range(n)]
        out["rel"] = [draw(st.sampled_from([1e-8, 1e-7])) for _ in range(n)]
    if draw(st.booleans()):
        # the run before this one: another size, another scheme, coarse or per-variable steps
        nb = draw(st.integers(1, 8).filter(lambda v: v != n))
        pb = draw(problem_spec(families=("boxqp",), n_min=nb, n_max=nb, narrow=True, kappa_max_exp=1.0, box_mode="boxed"))
        jb = draw(st.sampled_from([None, "2-point", "3-point", "cs", "callable"]))
        vec_steps = draw(st.booleans())
        out["before"] = {"problem": pb, "jac": jb,
                         "eps": [draw(st.sampled_from([1e-3, 1e-2])) for _ in range(nb)] if vec_steps else draw(st.sampled_from([1e-3, 1e-2])),
                         "rel": [draw(st.sampled_from([1e-3, 1e-2])) for _ in range(nb)] if vec_steps else draw(st.sampled_from([1e-2, 1e-3, None]))}
    return out


def shard(ctx):
    ctx.hyp("fd-runs", strategy(), check, ctx.pick(6000, 100000))


def replay(spec):
    check(spec, None)
