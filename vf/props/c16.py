"""C16 -- finite-difference modes work at the bounds and agree with exact gradients."""

from __future__ import annotations

import numpy as np
from hypothesis import strategies as st

from vf.core import Discard, Violation, require
from vf.observe import run_min
from vf.specs import CONVEX_FAMILIES, build, problem_spec

ID = "C16"
LEVEL = "exploration"
RULE = (
    "Hypothesis draws convex problems (kappa<=100) and the package's benchmark functions with narrow boxes of every kind (incl. lb==ub), starts on faces/vertices, and runs them with "
    "jac in {None, '2-point', '3-point', 'cs' (analytic families)}, eps in {1e-8,1e-6}, finite_diff_rel_step in {None,1e-7}. Oracle: no exception escapes; every stencil point inside the box; "
    "nfev equals the number of objective calls logged (stencil points included); on the convex families the final value matches the exact-gradient run to 1e-6*(1+|f|). "
    "non-trivial = some iterate of the run has a component on a bound and >=1 bound is active at the result; distinct = distinct (problem, mode, options)"
)
ASSUMPTIONS = [
    "differencing error of the gradient is <= 1e-8*L*|x| (2-point) and enters the optimal value quadratically, so 1e-6 relative is loose by orders of magnitude yet far below a stalled run",
]


def check(spec, stats=None):
    prob = build(spec["problem"])
    mode = spec["jac"]
    cfg = {"maxcor": spec["maxcor"], "maxiter": 300, "maxfun": 30000, "maxls": 20, "ftol": 1e-14, "gtol": 1e-7}
    if mode is None:
        cfg["eps"] = spec["eps"]
    else:
        cfg["finite_diff_rel_step"] = spec["rel"]
    tr = run_min(prob, cfg, jac_mode=mode, callback="passive")
    lb, ub = prob.lb, prob.ub
    if tr.exc is not None:
        import traceback

        frames = traceback.extract_tb(tr.exc.__traceback__)
        bound_related = any("_numdiff" in fr.filename for fr in frames) or "bound" in str(tr.exc).lower()
        if bound_related:
            raise Violation("no-exception-at-bounds", f"jac={mode!r}: {type(tr.exc).__name__}: {str(tr.exc)[:200]}")
        # e.g. a Cholesky breakdown of the memory matrix on a noisy non-convex run: not "because an
        # iterate touches or grazes a bound"; outside this property, counted
        if stats is not None:
            stats.bump("other-exception-not-judged:" + type(tr.exc).__name__)
        raise Discard("exception unrelated to bounds: " + type(tr.exc).__name__)
    for x, _ in tr.fun_calls:
        xr = np.real(x)
        if not (np.all(xr >= lb) and np.all(xr <= ub)):
            i = int(np.nonzero((xr < lb) | (xr > ub))[0][0])
            raise Violation("stencil-inside-box", f"jac={mode!r}: objective evaluated at component {i} = {xr[i]!r} outside [{lb[i]!r}, {ub[i]!r}]")
    require(tr.res["nfev"] == tr.nf, "nfev-counts-stencil-evaluations", f"jac={mode!r}: nfev={tr.res['nfev']} but the objective was called {tr.nf} times")
    require(tr.res["message"] not in ("START", "RESTART_FROM_LNSRCH"), "documented-message", f"jac={mode!r}: message {tr.res['message']!r}")
    compared = False
    if prob.obj.convex:
        ex = run_min(prob, cfg, jac_mode="callable")
        if ex.exc is not None:
            raise ex.exc
        f_fd = float(prob.obj.f(tr.res["x"]))
        f_ex = float(prob.obj.f(ex.res["x"]))
        tol = 1e-6 * (1.0 + abs(f_ex))
        if stats is not None:
            stats.maxi("max_value_gap_over_tol", (f_fd - f_ex) / tol)
        require(abs(f_fd - f_ex) <= tol, "value-matches-exact-gradient-run",
                f"jac={mode!r}: f_FD={f_fd!r} ({tr.res['message']}) vs f_exact={f_ex!r} ({ex.res['message']}); gap {f_fd - f_ex:.3e} > {tol:.1e}")
        compared = True
    if stats is not None:
        touched = any(bool(np.any(((c["xk"] == lb) | (c["xk"] == ub)) & (lb != ub))) for c in tr.cb) or bool(np.any(((np.clip(prob.x0, lb, ub) == lb) | (np.clip(prob.x0, lb, ub) == ub)) & (lb != ub)))
        active = bool(np.any(((tr.res["x"] == lb) | (tr.res["x"] == ub))))
        stats.case(spec, touched and active and tr.res["nit"] >= 1,
                   [f"jac={mode}", f"compared={compared}", f"active_at_result={active}", f"degenerate_side={bool(np.any(lb == ub))}", f"msg={tr.res['message'][:26]}"],
                   sample={"family": spec["problem"]["obj"].get("bench", spec["problem"]["obj"]["family"]), "n": prob.n, "jac": mode, "eps": spec.get("eps"), "rel": spec.get("rel"),
                           "nit": tr.res["nit"], "nfev": tr.res["nfev"], "active_bounds_at_result": int(np.count_nonzero((tr.res["x"] == lb) | (tr.res["x"] == ub)))})


@st.composite
def strategy(draw):
    mode = draw(st.sampled_from([None, "2-point", "3-point", "cs"]))
    fams = list(CONVEX_FAMILIES) if mode == "cs" else list(CONVEX_FAMILIES) * 2 + ["bench"]
    p = draw(problem_spec(families=fams, n_max=8, narrow=True, kappa_max_exp=2.0, box_mode=draw(st.sampled_from(["mixed", "boxed", "boxed"]))))
    return {"problem": p, "jac": mode, "maxcor": draw(st.integers(1, 10)), "eps": draw(st.sampled_from([1e-8, 1e-6])), "rel": draw(st.sampled_from([None, 1e-7]))}


def shard(ctx):
    ctx.hyp("fd-runs", strategy(), check, ctx.pick(6000, 100000))


def replay(spec):
    check(spec, None)
