"""C20 -- failures of user callables surface unchanged and leave nothing behind.

Fault enumeration: every call index of every kind of user callable of a generated
baseline run is an injection point."""

from __future__ import annotations

import numpy as np
from hypothesis import strategies as st

from vf.core import Discard, Violation, require
from vf.observe import InjectedFault, run_min, states_equal
from vf.runspec import execute, run_spec
from vf.specs import ALL_FAMILIES, build

ID = "C20"
LEVEL = "fault_enumeration"
RULE = (
    "Hypothesis draws a baseline run in which every kind of user callable is present (objective, gradient [callable or finite differences], callback, identity update function, "
    "gradient scaler, callable ftarget and gtol; every iprint level with and without a logger) and an exception type from {custom Exception, ValueError, TypeError, IndexError, AssertionError, ZeroDivisionError, FloatingPointError, "
    "StopIteration, KeyError, RuntimeError} -- a superset of the types the code catches anywhere. The baseline's call counts define the injection points: quick = up to 12 drawn indices per kind, "
    "thorough = every index. Oracle: the very exception instance (same type, same message) reaches the caller, and an identical fault-free call made afterwards is bit-identical to the baseline "
    "computed before any fault. non-trivial = the fault index lies inside the main loop (not the first evaluation) or the kind is ftarget/gtol (handlers nearby); distinct = (run, kind, index, type)"
)
ASSUMPTIONS = [
    "'fresh process' is represented by the baseline computed in-process before any fault was injected; for 1 run in 30 the follow-up result is additionally compared bitwise with the result computed by a new interpreter",
]

EXC_TYPES = {
    "custom": InjectedFault, "ValueError": ValueError, "TypeError": TypeError, "IndexError": IndexError, "AssertionError": AssertionError,
    "ZeroDivisionError": ZeroDivisionError, "FloatingPointError": FloatingPointError, "StopIteration": StopIteration, "KeyError": KeyError,
    "RuntimeError": RuntimeError,
}
KINDS = ("fun", "jac", "callback", "update", "scaler", "ftarget", "gtol")
FIELDS = ("x", "fun", "jac", "nfev", "njev", "nit", "sk", "yk", "message", "success", "status")


def _null_logger():
    import logging

    lg = logging.getLogger("vf-c20-null")
    lg.handlers[:] = [logging.NullHandler()]
    lg.propagate = False
    lg.setLevel(logging.INFO)
    return lg


def call_full(prob, rspec, fault=None):
    over = {}
    if rspec.get("iprint") is not None:
        # logging branches are code paths too: an exception must cross them unchanged
        over["cfg_over"] = {"iprint": rspec["iprint"], "logger": _null_logger() if rspec.get("with_logger") else None}
    return execute(rspec, prob=prob, update_fun_def="identity", fault=fault, **over)


def counts(tr):
    return {"fun": len(tr.fun_calls), "jac": len(tr.jac_calls), "callback": len(tr.cb), "update": len(tr.upd_calls),
            "scaler": len(tr.scaler_calls), "ftarget": tr.ftarget_calls, "gtol": tr.gtol_calls}


def check(spec, stats=None):
    rspec = spec["run"]
    prob = build(rspec["problem"])
    base = call_full(prob, rspec)
    if base.exc is not None:
        raise base.exc
    cnt = counts(base)
    ncases = 0
    for kind in KINDS:
        n = cnt[kind]
        if n == 0:
            continue
        if spec["indices"] == "all":
            idxs = range(n)
        else:
            idxs = sorted(set(min(int(f * n), n - 1) for f in spec["indices"]))
        for pos, j in enumerate(idxs):
            tname = spec["types"][(pos + KINDS.index(kind)) % len(spec["types"])]
            if tname == "StopIteration" and kind == "fun" and rspec["jac"] != "callable" and not spec.get("probe_known"):
                # known finding (known_findings.json: stopiteration-in-fd-stencil): excluded from the main
                # search by construction, probed separately in post(); counted
                if stats is not None:
                    stats.bump("excluded-known-finding:StopIteration-in-FD-objective")
                tname = "RuntimeError"
            msg = f"injected-{kind}-{j}-{tname}"
            exc = EXC_TYPES[tname](msg)
            tr = call_full(prob, rspec, fault={"kind": kind, "index": j, "exc": exc})
            if tr.exc is None:
                raise Violation(f"exception-propagates[{kind}]",
                                f"{tname} raised by the user's {kind} callable at call #{j} was swallowed: the run returned message {tr.res['message']!r}",
                                {"run": rspec, "indices": [j / max(n, 1) + 1e-9], "types": [tname], "only_kind": kind})
            if tr.exc is not exc:
                same = type(tr.exc) is type(exc) and tr.exc.args == exc.args
                if not same:
                    raise Violation(f"exception-unchanged[{kind}]",
                                    f"{tname}({msg!r}) raised by the user's {kind} callable at call #{j} reached the caller as {type(tr.exc).__name__}({str(tr.exc)[:120]!r})")
            # an identical fault-free call afterwards
            again = call_full(prob, rspec)
            if again.exc is not None:
                raise Violation(f"nothing-left-behind[{kind}]", f"fault-free call after a {tname} in {kind}#{j} raised {type(again.exc).__name__}: {again.exc}")
            d = states_equal(base.res, again.res, fields=FIELDS)
            require(d is None, f"nothing-left-behind[{kind}]", f"after a {tname} in {kind}#{j} an identical call differs from the baseline in field {d!r}")
            require(counts(again) == cnt, f"nothing-left-behind[{kind}]", f"call counts differ after a fault: {counts(again)} vs {cnt}")
            ncases += 1
            if stats is not None:
                in_loop = (kind in ("fun", "jac") and j >= 2) or kind in ("callback",) or (kind == "update" and j >= 1)
                stats.case({"run": rspec, "kind": kind, "j": j, "t": tname}, in_loop or kind in ("ftarget", "gtol"), [f"kind={kind}", f"type={tname}", f"inloop={in_loop}"],
                           sample={"family": rspec["problem"]["obj"]["family"], "jac": rspec["jac"], "kind": kind, "call_index": j, "of": n, "exception": tname})
    # "what it returns in a fresh process": sampled comparison of the follow-up result with a new interpreter
    if spec.get("fresh_process") and ncases > 0:
        from vf.subproc import run_in_fresh_process

        fp = run_in_fresh_process(rspec, {"update_fun_def": "identity"})
        if "exc" in fp:
            raise Violation("nothing-left-behind[fresh-process]", f"fresh process raised {fp['exc']}")
        d = states_equal(base.res, fp, fields=FIELDS)
        require(d is None, "nothing-left-behind[fresh-process]", f"after {ncases} injected faults the fault-free result differs from a fresh process in field {d!r}")
        if stats is not None:
            stats.bump("compared-with-a-fresh-process")
    if stats is not None and ncases == 0:
        stats.case(spec, False, ["no-injection-point"])


@st.composite
def strategy(draw, all_indices=False):
    r = draw(run_spec(families=ALL_FAMILIES, n_max=6, jac_modes=("callable", "callable", "callable", None, "2-point", "3-point"),
                      maxiter=(1, 12), maxfun=(4, 60), small_ls=draw(st.booleans()), ftols=(0.0, 1e-12), gtols=(1e-8, 1e-5), extras=True))
    r["scaler"] = draw(st.sampled_from([0.5, 2.0, 1.0, 3.7]))
    r["ftarget"] = {"kind": "callable", "rel": draw(st.sampled_from([0.5, 0.9, 1.5, 3.0]))}
    r["gtol_callable"] = True
    r["callback"] = "passive"
    r["iprint"] = draw(st.sampled_from([None, None, -1, 0, 1, 99, 100, 101]))
    r["with_logger"] = draw(st.booleans())
    idx = "all" if all_indices else draw(st.lists(st.integers(0, 99).map(lambda k: k / 100.0), min_size=3, max_size=12))
    types = draw(st.lists(st.sampled_from(sorted(EXC_TYPES)), min_size=3, max_size=6))
    return {"run": r, "indices": idx, "types": types, "fresh_process": draw(st.integers(0, 29)) == 0}


def shard(ctx):
    if ctx.tier == "quick":
        ctx.hyp("faults", strategy(False), check, 1200)
    else:
        ctx.hyp("faults", strategy(False), check, 3000)
        ctx.hyp("faults-all-indices", strategy(True), check, 3000)


def replay(spec):
    check(spec, None)


def post(tier, seed, known):
    """Dedicated probe of the recorded finding: StopIteration raised by the objective while
    SciPy's approx_derivative evaluates a finite-difference stencil through map() ends that
    iteration silently instead of propagating."""
    import json
    import os

    lines = []
    for k in known:
        if k.get("property") != ID or k.get("id") != "stopiteration-in-fd-stencil":
            continue
        path = os.path.join(os.path.dirname(os.path.dirname(os.path.dirname(os.path.abspath(__file__)))), "replays", "C20", k["replay"])
        with open(path) as fh:
            spec = json.load(fh)["spec"]
        spec = dict(spec)
        spec["probe_known"] = True
        try:
            check(spec, None)
        except Violation as v:
            if v.clause == "exception-propagates[fun]":
                lines.append(f"KNOWN-FINDING: property={ID} {k['what']}")
            else:
                raise
    return lines
