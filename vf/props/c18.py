"""C18 -- the returned inverse-Hessian operator is built from genuine curvature pairs.

Invariant over the history: pairs are bit-exact differences of iterates the harness saw
and of the gradients it returned there; dense inverse-BFGS reference for SPD-ness and for
extract_hess_inv_diag."""

from __future__ import annotations

import numpy as np
from hypothesis import strategies as st

from vf.core import Discard, Violation, require
from vf.families import householder_Q
from vf.observe import run_min
from vf.pairs import check_genuine_pairs, find_chain
from vf.props.c05 import scale_of
from vf.props.c06 import chain_scale
from vf.refmodels import dense_bfgs_H
from vf.runspec import execute, run_spec
from vf.specs import ALL_FAMILIES, build, grid, loggrid, sgrid, vec

ID = "C18"
LEVEL = "exploration"
RULE = (
    "(1) Hypothesis draws traces with the generators of C03/C04/C06 (fresh runs with tiny line-search budgets, gradient scaler, restart chains with kept/reduced maxcor; callable gradient; plus 'rough' traces: non-convex objectives with maxls in 1..3, where unstored steps and memory resets follow each other) and objective redefinitions through an update function (C13's switch generator): for every callback "
    "state and result the pairs must number <= maxcor, be bit-exact differences of visited iterates and of the gradients the harness returned there (times the scaling factor), in chronological order, with "
    "s.y>0; pairs inherited from a checkpoint must equal the checkpoint's newest pairs up to the reconstruction rounding of C06(a). The dense inverse-BFGS matrix built by the harness must be symmetric "
    "positive definite and equal to the operator. (2) arbitrary positive-curvature pair sets (size 1..12, dimension 1..30, y = A s + perturbation, and non-quadratic sets) for extract_hess_inv_diag. "
    "non-trivial = the run had a rejected update (merged pair), a memory overflow, a memory reset or a restart; for (2): >=2 pairs in dimension >=2; distinct = distinct spec"
)
ASSUMPTIONS = [
    "objective-redefinition traces use C13's switch generator; gradients 'the user returned' are then the rewritten ones",
    "SPD-ness / operator equality judged numerically only while cond(H) <= 1e12 (gated cases counted); the exact clauses (count, bit-exact differences, s.y>0) always",
]
EPS = 2.220446049250313e-16


def check_operator(state_or_pairs, hess_inv=None, stats=None, what="state"):
    sk, yk = state_or_pairs["sk"], state_or_pairs["yk"]
    if sk.size == 0:
        return
    n = sk.shape[1]
    for j in range(sk.shape[0]):
        require(float(sk[j] @ yk[j]) > 0, "positive-curvature", f"{what}: pair {j} has s.y = {float(sk[j] @ yk[j])!r}")
    H = dense_bfgs_H(list(sk), list(yk), n)
    Hs = 0.5 * (H + H.T)
    ev = np.linalg.eigvalsh(Hs)
    cond = ev.max() / max(ev.min(), 1e-300) if ev.min() > 0 else np.inf
    if not np.all(np.isfinite(H)) or cond > 1e12:
        if stats is not None:
            stats.bump("operator-ill-conditioned-gated")
        return
    # rounding of the recursion itself grows with the conditioning: the comparison tolerance follows it
    # ... and with the conditioning of the *intermediate* matrices of the recursion, which a nearly
    # orthogonal pair (s.y << |s||y|) makes far worse than the final one
    amp = max((float(np.linalg.norm(sk[j]) * np.linalg.norm(yk[j])) / float(sk[j] @ yk[j])) ** 2 for j in range(sk.shape[0]))
    # ... and with the mismatch between the identity the recursion starts from and the scale of the pairs
    # (problems posed in tiny or huge units): the remnant of H0 = I is only cancelled up to rounding
    gam = [float(sk[j] @ yk[j]) / float(yk[j] @ yk[j]) for j in range(sk.shape[0])]
    mismatch = max(max(g_, 1.0 / g_) for g_ in gam)
    rel = max(1e-9, 1e3 * EPS * cond, 1e3 * EPS * amp, 1e3 * EPS * mismatch)
    if rel > 1e-3:
        if stats is not None:
            stats.bump("operator-ill-conditioned-gated")
        return
    require(float(np.max(np.abs(H - H.T))) <= rel * float(np.max(np.abs(H))), "operator-symmetric", f"{what}: asymmetry {float(np.max(np.abs(H - H.T))):.3e}")
    require(ev.min() > 0, "operator-positive-definite", f"{what}: smallest eigenvalue {ev.min():.3e}")
    if hess_inv is not None:
        from lbfgsb import extract_hess_inv_diag

        D = np.asarray(hess_inv.todense())
        tol = rel * float(np.max(np.abs(H)))
        require(float(np.max(np.abs(D - H))) <= tol, "operator-is-inverse-bfgs-of-pairs", f"{what}: |todense - H_ref| = {float(np.max(np.abs(D - H))):.3e}")
        diag = np.asarray(extract_hess_inv_diag(hess_inv))
        require(diag.shape == (n,), "diagonal-utility", f"{what}: shape {diag.shape}")
        err = max(float(np.max(np.abs(diag - np.diag(H)))), float(np.max(np.abs(diag - np.diag(D)))))
        require(err <= tol, "diagonal-utility", f"{what}: extract_hess_inv_diag deviates {err:.3e} from the dense diagonal (tol {tol:.1e})")


def split_inherited(points, grads, state, ck, maxcor, what):
    """Pairs of a restarted run: the newest q pairs are bit-exact differences of points visited
    since the restart (chain starting at the checkpoint's x when older pairs precede them); the
    older r pairs are the checkpoint's newest r pairs up to reconstruction rounding."""
    sk, yk = state["sk"], state["yk"]
    m = sk.shape[0]
    if m == 0:
        return 0, 0
    require(m <= maxcor, "at-most-maxcor-pairs", f"{what}: {m} pairs with maxcor={maxcor}")
    cur = None
    for i in range(len(points) - 1, -1, -1):
        if np.array_equal(points[i], state["x"]):
            cur = i
            break
    require(cur is not None, "state-x-was-visited", f"{what}: x not among visited points")
    mck = ck["sk"].shape[0]
    c = 4.0 * (max(mck, m) + 2)
    tol_s = c * EPS * max(chain_scale(ck["x"], ck["sk"]), 1e-300)
    tol_y = c * EPS * max(chain_scale(ck["jac"], ck["yk"]), 1e-300)
    why_last = ""
    for r in range(0, min(m, mck) + 1):
        q = m - r
        ok_new = False
        if q == 0:
            ok_new = True
        else:
            for end in range(cur, -1, -1):
                chain, why = find_chain(points, grads, sk[r:], yk[r:], end)
                if chain is not None and (r == 0 or chain[0] == 0):
                    ok_new = True
                    break
                why_last = why or why_last
        if not ok_new:
            continue
        if r == 0:
            return 0, q
        # the inherited pairs are a chronological run of the checkpoint's pairs: normally its newest r; when the
        # restart itself rejects the re-appended newest pair (stricter eps_SY given at the restart) and no new pair
        # follows, a run that ends earlier.  (That a restart with unchanged arguments keeps exactly the newest
        # pairs is C06's clause, judged there.)
        ends = [mck] if q > 0 else list(range(mck, r - 1, -1))
        for j in ends:
            ds = float(np.max(np.abs(sk[:r] - ck["sk"][j - r:j])))
            dy = float(np.max(np.abs(yk[:r] - ck["yk"][j - r:j])))
            if ds <= tol_s and dy <= tol_y:
                return r, q
        why_last = f"oldest {r} pairs differ from every run of {r} consecutive pairs of the checkpoint: e.g. newest |ds|={ds:.3e} (tol {tol_s:.1e}) |dy|={dy:.3e} (tol {tol_y:.1e})"
    # Fallback for a restart that itself rejected the re-appended newest pair (curvature threshold changed at the
    # restart): the memory then ends at an *older* checkpoint point, and the next stored pair bridges from that point
    # to a new iterate.  Match against the checkpoint's reconstructed history followed by the new iterates, with the
    # reconstruction tolerance.
    past_x = [ck["x"] - np.sum(ck["sk"][i:], axis=0) for i in range(mck)]
    past_g = [ck["jac"] - np.sum(ck["yk"][i:], axis=0) for i in range(mck)]
    ext_p = past_x + list(points)
    ext_g = past_g + list(grads)
    for end in range(cur + mck, -1, -1):
        chain, why = find_chain(ext_p, ext_g, sk, yk, end, tol_s=tol_s, tol_y=tol_y)
        if chain is not None:
            return -1, m
    raise Violation("pairs-are-differences-of-visited-points[restart]", f"{what}: no split into inherited + new pairs explains the {m} stored pairs; {why_last}")


def check_trace(spec, stats=None):
    rspec = spec["run"]
    prob = build(rspec["problem"])
    cfg = dict(rspec["cfg"])
    tr = execute(rspec, prob=prob, callback="passive")
    if tr.exc is not None:
        raise tr.exc
    s = scale_of(rspec, tr)
    if not np.isfinite(s) or s <= 0:
        raise Discard("scaler value not positive finite")
    x0c = np.clip(prob.x0, prob.lb, prob.ub)
    pts = [x0c] + [c["xk"] for c in tr.cb]
    if not np.array_equal(pts[-1], tr.res["x"]):
        pts.append(tr.res["x"])
    grads = [prob.obj.g(p) * s for p in pts]
    merged = overflow = reset = False
    prev_pairs = 0
    for c in tr.cb:
        chain = check_genuine_pairs(pts, grads, c["snap"], "fresh", cfg["maxcor"], eps_sy=None, what=f"callback state nit={c['snap']['nit']}")
        check_operator(c["snap"], c["live"].hess_inv, stats, what=f"callback state nit={c['snap']['nit']}")
        if chain and any(b - a > 1 for a, b in zip(chain, chain[1:])):
            merged = True
        npairs = c["snap"]["sk"].shape[0]
        if npairs < prev_pairs:
            reset = True
        if npairs == cfg["maxcor"] and c["snap"]["nit"] > cfg["maxcor"]:
            overflow = True
        prev_pairs = npairs
    if tr.res["njev"] >= 1:
        check_genuine_pairs(pts, grads, tr.res, "fresh", cfg["maxcor"], eps_sy=None, what="result")
        check_operator(tr.res, tr.result.hess_inv, stats, what="result")
    # ---- restart chain
    nrest = 0
    prev = tr
    if "scaler" not in rspec and tr.res["njev"] >= 1:
        for rs in spec.get("restarts", []):
            c2 = dict(cfg)
            c2["maxiter"] = prev.res["nit"] + rs["dit"]
            c2["maxfun"] = prev.res["nfev"] + 200
            if rs.get("maxcor"):
                c2["maxcor"] = rs["maxcor"]
            if rs.get("eps_SY"):
                c2["eps_SY"] = rs["eps_SY"]  # a stricter curvature threshold at the restart: the re-appended newest pair may be rejected
            nxt = run_min(prob, c2, checkpoint=prev.result, x0=np.array(prev.result.x, copy=True), callback="passive")
            if nxt.exc is not None:
                raise Violation("restart-accepted", f"restart raised {type(nxt.exc).__name__}: {nxt.exc}")
            p2 = [np.array(prev.res["x"], copy=True)] + [c["xk"] for c in nxt.cb]
            if not np.array_equal(p2[-1], nxt.res["x"]):
                p2.append(nxt.res["x"])
            g2 = [np.array(prev.res["jac"], copy=True)] + [prob.obj.g(p) for p in p2[1:]]
            for c in nxt.cb:
                split_inherited(p2, g2, c["snap"], prev.res, c2["maxcor"], f"restart callback state nit={c['snap']['nit']}")
                check_operator(c["snap"], c["live"].hess_inv, stats, what="restart state")
            split_inherited(p2, g2, nxt.res, prev.res, c2["maxcor"], "restart result")
            check_operator(nxt.res, nxt.result.hess_inv, stats, what="restart result")
            prev, cfg = nxt, c2
            nrest += 1
    if stats is not None:
        if merged and reset:
            stats.bump("traces-with-both-an-unstored-step-and-a-memory-reset")
        stats.case(spec, merged or overflow or reset or nrest >= 1,
                   [f"merged={merged}", f"overflow={overflow}", f"reset={reset}", f"restarts={nrest}", f"scaler={'scaler' in rspec}"],
                   sample={"family": rspec["problem"]["obj"]["family"], "cfg": rspec["cfg"], "merged_pair": merged, "overflow": overflow, "memory_reset": reset, "restarts": nrest})


# ------------------------------------------------------------------ (1b) objective redefinitions
def check_redefinition(spec, stats=None):
    """Traces in which an update function switches the objective: from the switch on, the pairs of
    every state must be exact differences of the *rewritten* gradients with s.y > 0 and the operator SPD."""
    from vf.props.c13 import make_switch_update

    rspec = spec["run"]
    prob = build(rspec["problem"])
    cfg = dict(rspec["cfg"])
    sw = spec["switch"]
    j = sw["at"]
    info = {}
    upd, objB = make_switch_update(prob, sw, info)

    tr = run_min(prob, cfg, callback="passive", update_fun_def=upd)
    if tr.exc is not None:
        from vf.props.c13 import numerical_breakdown_gate

        numerical_breakdown_gate(tr, stats)
        raise tr.exc
    if "ncb" not in info:
        if stats is not None:
            stats.case(spec, False, ["kind=redefinition", "switch-not-reached"])
        return
    x0c = np.clip(prob.x0, prob.lb, prob.ub)
    pts = [x0c] + [c["xk"] for c in tr.cb]
    if not np.array_equal(pts[-1], tr.res["x"]):
        pts.append(tr.res["x"])
    gB = [np.array(objB.g(p)) for p in pts]
    if not all(np.all(np.isfinite(p)) for p in pts) or not all(np.all(np.isfinite(g)) for g in gB):
        raise Discard("diverged")
    icb = info["ncb"]
    n_after = None
    for ci, c in enumerate(tr.cb):
        if ci >= icb:
            check_genuine_pairs(pts, gB, c["snap"], "redefined", cfg["maxcor"], eps_sy=None, what=f"callback state nit={c['snap']['nit']} after the redefinition")
            check_operator(c["snap"], c["live"].hess_inv, stats, what="state after redefinition")
            if ci == icb:
                n_after = c["snap"]["sk"].shape[0]
    if icb < len(tr.cb) or j == 0:
        check_genuine_pairs(pts, gB, tr.res, "redefined", cfg["maxcor"], eps_sy=None, what="result after the redefinition")
        check_operator(tr.res, tr.result.hess_inv, stats, what="result after redefinition")
    if stats is not None:
        nb = info.get("npairs_before")
        dropped = (nb + 1 - n_after) if (n_after is not None and j >= 1) else None
        stats.case(spec, bool(dropped) and dropped >= 1, ["kind=redefinition", f"variant={sw['variant']}", f"dropped={'?' if dropped is None else min(dropped, 3)}"],
                   sample={"family": rspec["problem"]["obj"]["family"], "switch": {"at": j, "variant": sw["variant"]}, "pairs_before": nb, "pairs_after": n_after})


# ------------------------------------------------------------------ (2) operator cases
def check_pairs_case(spec, stats=None):
    import scipy.optimize as so

    n = spec["n"]
    S = np.array(spec["S"], dtype=float)
    Y = np.array(spec["Y"], dtype=float)
    if np.any(np.einsum("ij,ij->i", S, Y) <= 1e-12 * np.linalg.norm(S, axis=1) * np.linalg.norm(Y, axis=1)):
        raise Discard("non-positive curvature pair in the generated set")
    op = so.LbfgsInvHessProduct(S, Y)
    check_operator({"sk": S, "yk": Y}, op, stats, what="synthetic pair set")
    if stats is not None:
        stats.case(spec, S.shape[0] >= 2 and n >= 2, ["kind=operator", f"pairs={'1' if S.shape[0] == 1 else '2-5' if S.shape[0] <= 5 else '6-12'}", f"n={'1-3' if n <= 3 else '4-12' if n <= 12 else '13-30'}"])


@st.composite
def pairs_case(draw):
    n = draw(st.integers(1, 30))
    k = draw(st.integers(1, 12))
    kexp = draw(grid(0.0, 3.0, 30))
    lam = np.array([10.0 ** (kexp * draw(grid(0.0, 1.0, 20))) for _ in range(n)])
    nh = draw(st.integers(0, min(2, n - 1))) if n > 1 else 0
    Q = householder_Q([draw(vec(sgrid(1.0, 10), n)) for _ in range(nh)], n)
    A = (Q * lam) @ Q.T
    nonquad = draw(st.booleans())
    S, Y = [], []
    for _ in range(k):
        s = np.array(draw(vec(sgrid(2.0, 40), n)))
        y = A @ s
        if nonquad:
            y = y + 0.3 * np.array(draw(vec(grid(0.0, 1.0, 10), n))) * s  # extra positive diagonal curvature
        else:
            y = y + 1e-3 * np.array(draw(vec(sgrid(1.0, 10), n))) * np.linalg.norm(y) / max(np.sqrt(n), 1.0)
        S.append(s.tolist()); Y.append(y.tolist())
    return {"n": n, "S": S, "Y": Y}


@st.composite
def trace_strategy(draw):
    r = draw(run_spec(families=ALL_FAMILIES, n_max=8, jac_modes=("callable",), maxiter=(1, 30), maxfun=(2, 150), units=True, small_ls=draw(st.booleans()),
                      ftols=(0.0, 1e-12), gtols=(1e-8, 1e-6), with_scaler=True, maxcor_max=6, extras=True))
    nr = draw(st.sampled_from([0, 1, 2, 3]))
    restarts = [{"dit": draw(st.sampled_from([0, 1, 2, 5])), "maxcor": draw(st.sampled_from([None, None, 1, 2, 4])), "eps_SY": draw(st.sampled_from([None, None, 1e-3, 1.0]))}
                for _ in range(nr)]
    return {"run": r, "restarts": restarts}


@st.composite
def rough_trace_strategy(draw):
    """Non-convex objectives with a one- or two-trial line search: steps whose curvature pair is rejected and
    failed line searches (memory resets) are frequent, and so is the one right after the other."""
    r = draw(run_spec(families=("sines", "badscale", "bench", "rosenbrock", "sines"), n_max=4, jac_modes=("callable",), maxiter=(8, 40), maxfun=(300, 300),
                      ftols=(0.0,), gtols=(1e-10,), maxcor_max=10, allow_degenerate=False))
    r["cfg"]["maxls"] = draw(st.sampled_from([1, 2, 2, 3]))
    return {"run": r, "restarts": []}


def shard(ctx):
    ctx.hyp("traces", trace_strategy(), check_trace, ctx.pick(3000, 90000))
    ctx.hyp("rough-traces", rough_trace_strategy(), check_trace, ctx.pick(8000, 120000))
    from vf.props.c13 import switch_strategy

    ctx.hyp("redefinitions", switch_strategy(), check_redefinition, ctx.pick(2500, 40000))
    ctx.hyp("operators", pairs_case(), check_pairs_case, ctx.pick(5000, 150000))


def replay(spec):
    if "switch" in spec:
        check_redefinition(spec, None)
    elif "run" in spec:
        check_trace(spec, None)
    else:
        check_pairs_case(spec, None)
