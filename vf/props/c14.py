"""C14 -- runs are deterministic, isolated from each other and do not touch their inputs.

The harness owns the schedule: a baton inside the objective closures decides which of
two threads may perform its next objective call, so every interleaving is deterministic
and replayable; all interleavings of two small runs are enumerated."""

from __future__ import annotations

import copy
import itertools
import logging
import sys
import threading

import numpy as np
from hypothesis import strategies as st

from vf.core import Discard, Violation, require
from vf.observe import Trace, run_min, snapshot_state, states_equal
from vf.runspec import execute, run_spec
from vf.specs import ALL_FAMILIES, build

ID = "C14"
LEVEL = "exploration"
RULE = (
    "Hypothesis draws pairs of small runs (A, B) with <=6 (quick) / <=8 (thorough) objective calls each, optional gradient scaler; ALL interleavings of their objective calls on two threads are "
    "enumerated through a harness-owned baton (up to 252 words per pair in quick, 3432 in thorough; a deterministic stride sample beyond), plus nested invocations (B minimised completely inside A's "
    "objective at a drawn call), read-only and integer-typed x0/bounds/checkpoint arrays, x0 and bounds as non-contiguous views of larger arrays (whose other entries must stay untouched) and bounds in Fortran order, a user gradient that returns one reused output buffer (must not be modified nor aliased), restart twice from the same checkpoint object (with and without scaler), every iprint level with and without "
    "logger, a free-running two-thread run with a 1 microsecond switch interval, and (1 case in 40) the same call in a fresh interpreter. Oracle: bitwise equality with the solo result computed first; inputs byte-identical afterwards. "
    "non-trivial = the schedule switches threads >=2 times while both runs are inside their main loop, or the call is nested, or an input is read-only / a checkpoint; distinct = distinct (pair, schedule)"
)
ASSUMPTIONS = [
    "interleavings are owned at objective-call granularity; pre-emption inside numpy kernels is only sampled (free-running threads with a tiny switch interval)",
]
FIELDS = ("x", "fun", "jac", "nfev", "njev", "nit", "sk", "yk", "message", "success", "status")


class Baton:
    def __init__(self, word):
        self.word = list(word)
        self.pos = 0
        self.cv = threading.Condition()
        self.done = set()
        self.switches = 0
        self.last = None

    def gate(self, who):
        with self.cv:
            while True:
                if self.pos >= len(self.word):
                    return
                turn = self.word[self.pos]
                if turn in self.done:
                    self.pos += 1
                    self.cv.notify_all()
                    continue
                if turn == who:
                    self.pos += 1
                    if self.last is not None and self.last != who:
                        self.switches += 1
                    self.last = who
                    self.cv.notify_all()
                    return
                if not self.cv.wait(timeout=20.0):
                    raise RuntimeError("baton timeout (harness)")

    def finish(self, who):
        with self.cv:
            self.done.add(who)
            self.cv.notify_all()


def run_pair_threads(pA, rA, pB, rB, word):
    bat = Baton(word)
    out = {}

    def worker(who, prob, rspec):
        try:
            out[who] = execute(rspec, prob=prob, gate=lambda kind, who=who: bat.gate(who) if kind == "f" else None)
        except BaseException as e:  # noqa
            out[who] = e
        finally:
            bat.finish(who)

    ta = threading.Thread(target=worker, args=("A", pA, rA))
    tb = threading.Thread(target=worker, args=("B", pB, rB))
    ta.start(); tb.start()
    ta.join(60); tb.join(60)
    if ta.is_alive() or tb.is_alive():
        raise RuntimeError("threads did not finish (harness)")
    return out, bat.switches


def same(a: Trace, b, what):
    if isinstance(b, BaseException):
        raise Violation(f"isolated[{what}]", f"run raised {type(b).__name__}: {b}")
    if b.exc is not None:
        if isinstance(b.exc, RuntimeError) and "(harness)" in str(b.exc):
            from vf.core import HarnessError

            raise HarnessError(str(b.exc))
        raise Violation(f"isolated[{what}]", f"run raised {type(b.exc).__name__}: {b.exc}")
    d = states_equal(a.res, b.res, fields=FIELDS)
    if d is not None:
        raise Violation(f"isolated[{what}]", f"result field {d!r} differs from the solo run: solo {a.res[d]!r} vs {b.res[d]!r}")
    ok = len(a.fun_calls) == len(b.fun_calls) and all(np.array_equal(p[0], q[0]) for p, q in zip(a.fun_calls, b.fun_calls))
    require(ok, f"isolated[{what}]", "evaluation points differ from the solo run")


def words(nA, nB, cap):
    total = 1
    for i in range(1, nA + 1):
        total = total * (nB + i) // i
    stride = 1 if total <= cap else (total + cap - 1) // cap
    for i, pos in enumerate(itertools.combinations(range(nA + nB), nA)):
        if i % stride:
            continue
        w = ["B"] * (nA + nB)
        for p in pos:
            w[p] = "A"
        yield w, stride == 1


def check_pair(spec, stats=None):
    rA, rB = spec["A"], spec["B"]
    pA, pB = build(rA["problem"]), build(rB["problem"])
    soloA, soloB = execute(rA, prob=pA), execute(rB, prob=pB)
    if soloA.exc is not None:
        raise soloA.exc
    if soloB.exc is not None:
        raise soloB.exc
    # determinism: same call again
    same(soloA, execute(rA, prob=pA), "repeat")
    nA, nB = len(soloA.fun_calls), len(soloB.fun_calls)
    cap = spec.get("cap", 252)
    complete = True
    nw = 0
    for w, full in words(nA, nB, cap):
        complete = complete and full
        out, sw = run_pair_threads(pA, rA, pB, rB, w)
        for who, solo in (("A", soloA), ("B", soloB)):
            if isinstance(out.get(who), RuntimeError) and "harness" in str(out.get(who)):
                raise out[who]
            same(solo, out.get(who), "interleaved")
        nw += 1
        if stats is not None:
            stats.case({"A": rA, "B": rB, "w": "".join(w)}, sw >= 2 and nA >= 2 and nB >= 2, ["kind=interleaving", f"switches={min(sw, 4)}"],
                       sample={"A": rA["problem"]["obj"]["family"], "B": rB["problem"]["obj"]["family"], "calls": [nA, nB], "schedule": "".join(w)})
    if stats is not None:
        stats.bump("pairs-with-all-interleavings-enumerated" if complete else "pairs-with-stride-sample")
    # nested: B minimised completely inside A's objective at call j
    j = min(spec.get("nest_at", 0), max(nA - 1, 0))
    holder = {}

    def gate(kind):
        if kind == "f":
            holder["n"] = holder.get("n", -1) + 1
            if holder["n"] == j and "B" not in holder:
                holder["B"] = execute(rB, prob=pB)

    nestedA = execute(rA, prob=pA, gate=gate)
    same(soloA, nestedA, "nested-outer")
    if "B" in holder:
        same(soloB, holder["B"], "nested-inner")
    if stats is not None:
        stats.case({"A": rA, "B": rB, "nest": j}, True, ["kind=nested"], sample={"nested_at_objective_call": j, "outer": rA["problem"]["obj"]["family"], "inner": rB["problem"]["obj"]["family"]})
    # free-running threads, tiny switch interval (best effort sample of pre-emptive schedules)
    old = sys.getswitchinterval()
    try:
        sys.setswitchinterval(1e-6)
        out, _ = run_pair_threads(pA, rA, pB, rB, [])
    finally:
        sys.setswitchinterval(old)
    same(soloA, out.get("A"), "free-running-threads")
    same(soloB, out.get("B"), "free-running-threads")
    if stats is not None:
        stats.case({"A": rA, "B": rB, "free": True}, False, ["kind=free-running"])


# ---------------------------------------------------------------- inputs untouched / logging
def frozen(a):
    a = np.array(a, copy=True)
    a.setflags(write=False)
    return a


def check_inputs(spec, stats=None):
    import scipy.optimize as so

    rspec = spec["run"]
    prob = build(rspec["problem"])
    cfg = dict(rspec["cfg"])
    base = execute(rspec, prob=prob)
    if base.exc is not None:
        raise base.exc
    # --- x0 / bounds variants
    variant = spec["variant"]
    x0 = np.array(prob.x0, copy=True)
    bounds = np.array(prob.bounds, copy=True)
    label = variant
    if variant == "readonly":
        x0v, bv = frozen(x0), frozen(bounds)
    elif variant == "list-bounds":
        x0v = x0.copy()
        bv = [(None if not np.isfinite(l) else float(l), None if not np.isfinite(u) else float(u)) for l, u in bounds]
    elif variant == "strided":
        # a member of a population matrix / a slice of a larger parameter vector: non-contiguous views, read-only
        xbuf = np.full(2 * x0.size, 0.123)
        xbuf[::2] = x0
        bbuf = np.full((x0.size, 4), -7.5)
        bbuf[:, 1:3] = bounds
        xbuf_copy, bbuf_copy = xbuf.copy(), bbuf.copy()
        x0v, bv = xbuf[::2], bbuf[:, 1:3]
    elif variant == "fortran":
        x0v, bv = x0.copy(), np.asfortranarray(bounds)
    else:
        x0v, bv = x0.copy(), bounds.copy()
    x0_bytes = np.array(x0v, copy=True)
    b_copy = copy.deepcopy(bv)
    tr = execute(rspec, prob=prob, x0=x0v, bounds=bv)
    if tr.exc is not None:
        raise Violation(f"inputs-accepted[{variant}]", f"{variant} x0/bounds: raised {type(tr.exc).__name__}: {tr.exc}")
    require(np.array_equal(np.asarray(x0v), x0_bytes), f"inputs-untouched[x0,{variant}]", "x0 modified")
    if isinstance(bv, np.ndarray):
        require(np.array_equal(bv, b_copy), f"inputs-untouched[bounds,{variant}]", "bounds modified")
    else:
        require(bv == b_copy, f"inputs-untouched[bounds,{variant}]", "bounds modified")
    if variant == "strided":
        require(np.array_equal(xbuf, xbuf_copy) and np.array_equal(bbuf, bbuf_copy), "inputs-untouched[memory-around-a-view]", "the arrays that x0 / bounds are views of were modified")
    same(base, tr, f"input-variant-{variant}")
    # --- the same call in a fresh interpreter (sampled: process start-up is ~1 s)
    if spec.get("fresh_process"):
        from vf.subproc import run_in_fresh_process

        fp = run_in_fresh_process(rspec)
        if "exc" in fp:
            raise Violation("isolated[fresh-process]", f"the call raised in a fresh process: {fp['exc']}")
        d = states_equal(base.res, fp, fields=FIELDS)
        require(d is None, "isolated[fresh-process]", f"result field {d!r} differs between this (long-lived, many earlier calls) process and a fresh process")
        require(fp["n_fun_calls"] == len(base.fun_calls), "isolated[fresh-process]", "number of objective calls differs from a fresh process")
        label += "+fresh-process"
    # --- a gradient callable that reuses one preallocated output array (user-owned data)
    if rspec["jac"] == "callable":
        tb = execute(rspec, prob=prob, jac_style="buffer")
        if tb.exc is not None:
            raise Violation("inputs-accepted[jac-output-buffer]", f"raised {type(tb.exc).__name__}: {tb.exc}")
        require(tb.user_array_modified == 0, "inputs-untouched[array-returned-by-user-gradient]",
                f"the array returned by the user's gradient was modified by the library {tb.user_array_modified} time(s)")
        same(base, tb, "gradient-returns-reused-buffer")
        label += "+jacbuf"
    # --- integer x0 on an integer-feasible box: result equals the float run
    if spec.get("int_x0"):
        xi = np.round(prob.x0).astype(np.int64)
        if np.all(xi >= prob.lb) and np.all(xi <= prob.ub):
            a = execute(rspec, prob=prob, x0=xi.copy())
            b = execute(rspec, prob=prob, x0=xi.astype(float))
            if a.exc is not None:
                raise Violation("inputs-accepted[int-x0]", f"integer x0 raised {type(a.exc).__name__}: {a.exc}")
            if b.exc is None:
                same(b, a, "integer-x0")
            label += "+int"
    # --- checkpoint: restart twice from the same object, read-only arrays, with/without scaler
    ck_used = False
    if base.res["nit"] >= 1 and rspec["jac"] == "callable":
        ck = base.result
        scaler = spec.get("restart_scaler")
        ro = spec.get("ck_readonly", False)
        if ro:
            ck = so.OptimizeResult(dict(ck))
            ck.x = frozen(ck.x)
            ck.jac = frozen(ck.jac)
            ck.hess_inv = so.LbfgsInvHessProduct(frozen(base.result.hess_inv.sk), frozen(base.result.hess_inv.yk))
            ck.hess_inv.sk.setflags(write=False)
            ck.hess_inv.yk.setflags(write=False)
        before = snapshot_state(ck)
        c2 = dict(cfg)
        c2["maxiter"] = base.res["nit"] + spec.get("extra_iter", 2)
        c2["maxfun"] = base.res["nfev"] + 40
        r1 = run_min(prob, c2, checkpoint=ck, x0=np.array(ck.x, copy=True), scaler=scaler)
        mid = snapshot_state(ck)
        r2 = run_min(prob, c2, checkpoint=ck, x0=np.array(ck.x, copy=True), scaler=scaler)
        after = snapshot_state(ck)
        d = states_equal(before, mid, fields=FIELDS) or states_equal(before, after, fields=FIELDS)
        require(d is None, "inputs-untouched[checkpoint]", f"checkpoint field {d!r} was modified by the restart (scaler={scaler})")
        scaler_involved = scaler is not None or "scaler" in rspec
        numeric = lambda e: isinstance(e, (np.linalg.LinAlgError, FloatingPointError, ZeroDivisionError)) or (isinstance(e, ValueError) and "NaN" in str(e).replace("infs or NaNs", "NaN"))
        if r1.exc is not None and scaler_involved and numeric(r1.exc):
            # a checkpoint does not record the scaling factor (R12): mixing a scaled checkpoint with an unscaled
            # continuation (or scaling it twice) hands the solver inconsistent curvature pairs, and a factorisation
            # may break down.  Only the immutability of the checkpoint is judged in that combination.
            if stats is not None:
                stats.bump("restart-with-scaler-mismatch-broke-down(not judged)")
        else:
            if r1.exc is not None:
                raise Violation(f"inputs-accepted[checkpoint{',readonly' if ro else ''}]", f"restart raised {type(r1.exc).__name__}: {r1.exc}")
            if r2.exc is not None:
                raise Violation("restart-twice-same-result", f"second restart raised {type(r2.exc).__name__}: {r2.exc}")
            d = states_equal(r1.res, r2.res, fields=FIELDS)
            require(d is None, "restart-twice-same-result", f"two restarts from the same checkpoint object differ in {d!r}")
        # the early "target already met" path of a restart: the checkpoint must come out untouched there too
        c3 = dict(c2)
        r3 = run_min(prob, c3, checkpoint=ck, x0=np.array(ck.x, copy=True), ftarget=float(before["fun"]) + 1.0 + abs(float(before["fun"])))
        d = states_equal(before, snapshot_state(ck), fields=FIELDS)
        require(d is None, "inputs-untouched[checkpoint,early-target-restart]", f"checkpoint field {d!r} was modified by a restart whose target was already met")
        if r3.exc is not None and not (scaler_involved and numeric(r3.exc)):
            raise Violation("inputs-accepted[checkpoint,early-target-restart]", f"restart raised {type(r3.exc).__name__}: {r3.exc}")
        ck_used = True
        label += "+ckpt" + ("-ro" if ro else "") + ("-scaler" if scaler else "")
    if stats is not None:
        stats.case(spec, variant == "readonly" or ck_used, ["kind=inputs", f"variant={label}"], sample={"family": rspec["problem"]["obj"]["family"], "variant": label})


IPRINTS = (-1, 0, 1, 50, 99, 100, 101)


def check_logging(spec, stats=None):
    rspec = spec["run"]
    prob = build(rspec["problem"])
    base = execute(rspec, prob=prob)
    if base.exc is not None:
        raise base.exc
    lg = logging.getLogger("vf-c14-null")
    lg.handlers[:] = [logging.NullHandler()]
    lg.propagate = False
    lg.setLevel(logging.INFO)
    for ip in IPRINTS:
        for logger in (None, lg):
            tr = execute(rspec, prob=prob, cfg_over={"iprint": ip, "logger": logger})
            if tr.exc is not None:
                raise Violation("logging-has-no-influence", f"iprint={ip}, logger={'set' if logger else None}: raised {type(tr.exc).__name__}: {tr.exc}")
            d = states_equal(base.res, tr.res, fields=FIELDS)
            require(d is None, "logging-has-no-influence", f"iprint={ip}, logger={'set' if logger else None}: field {d!r} differs")
            require(len(tr.fun_calls) == len(base.fun_calls), "logging-has-no-influence", f"iprint={ip}: number of evaluations differs")
    if stats is not None:
        stats.case(spec, base.res["nit"] >= 1, ["kind=logging"], sample={"family": rspec["problem"]["obj"]["family"], "iprint_levels": list(IPRINTS), "nit": base.res["nit"]})


def small_run(maxfun_hi):
    return run_spec(families=ALL_FAMILIES, n_max=5, jac_modes=("callable", "callable", "2-point"), maxiter=(1, 6), maxfun=(2, maxfun_hi), small_ls=True, units=True,
                    ftols=(0.0,), gtols=(1e-8,), with_scaler=True)


@st.composite
def pair_strategy(draw, maxfun_hi, cap):
    return {"A": draw(small_run(maxfun_hi)), "B": draw(small_run(maxfun_hi)), "nest_at": draw(st.integers(0, 6)), "cap": cap}


@st.composite
def inputs_strategy(draw):
    r = draw(run_spec(families=ALL_FAMILIES, n_max=6, jac_modes=("callable", "callable", None), maxiter=(1, 10), maxfun=(3, 60), ftols=(0.0, 1e-12), gtols=(1e-8,), with_scaler=True, units=True))
    return {"run": r, "variant": draw(st.sampled_from(["readonly", "readonly", "list-bounds", "plain", "strided", "fortran"])), "int_x0": draw(st.booleans()),
            "ck_readonly": draw(st.booleans()), "restart_scaler": draw(st.sampled_from([None, None, 0.5, 4.0])), "extra_iter": draw(st.integers(0, 3)),
            "fresh_process": draw(st.integers(0, 39)) == 0}


@st.composite
def logging_strategy(draw):
    return {"run": draw(run_spec(families=ALL_FAMILIES, n_max=5, jac_modes=("callable", None), maxiter=(0, 8), maxfun=(1, 40), small_ls=True, with_ftarget=True))}


def shard(ctx):
    if ctx.tier == "quick":
        ctx.hyp("interleavings", pair_strategy(4, 252), check_pair, 400)
    else:
        ctx.hyp("interleavings", pair_strategy(4, 252), check_pair, 1600)
        ctx.hyp("interleavings-long", pair_strategy(6, 3432), check_pair, 160)
    ctx.hyp("inputs", inputs_strategy(), check_inputs, ctx.pick(1500, 40000))
    ctx.hyp("logging", logging_strategy(), check_logging, ctx.pick(400, 8000))


def replay(spec):
    if "A" in spec:
        check_pair(spec, None)
    elif "variant" in spec:
        check_inputs(spec, None)
    else:
        check_logging(spec, None)
