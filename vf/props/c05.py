"""C05 -- result coherence: fun and jac belong to x; counters equal calls made.

Round-trip oracle (recompute at the reported x with the harness's own closures, bitwise)
and accounting against the call log."""

from __future__ import annotations

import numpy as np
from hypothesis import strategies as st

from vf.core import Discard, Violation, require
from vf.observe import run_min
from vf.runspec import execute, run_spec
from vf.specs import ALL_FAMILIES, build

ID = "C05"
LEVEL = "exploration"
RULE = (
    "Hypothesis draws runs over all families/boxes/starts x all five gradient modes x small maxls (so that the accepted trial is often not the last one evaluated) x gradient scaler x ftarget, "
    "followed by chains of 0..3 restarts. For the result and every callback state the harness recomputes f (and the callable gradient) at the reported x and compares bitwise; nfev/njev are compared "
    "with the call log (plus the checkpoint's counters after a restart). non-trivial = the last point the objective was evaluated at differs from result.x, or the history contains a restart; "
    "distinct = distinct history spec; a fifth of the problems are also translated far from the origin (x -> x+T, |T| = 1e2..1e6: bounds and iterates of large magnitude compared with the box)"
)
ASSUMPTIONS = ["the harness closures are pure and are the very functions the solver called, so bit equality is sound", "restart chains do not re-supply a gradient scaler (R12)"]


def scale_of(rspec, tr):
    if "scaler" not in rspec or not tr.scaler_calls:
        return 1.0
    sc = rspec["scaler"]
    if sc == "unit":
        import lbfgsb

        c0 = tr.scaler_calls[0]
        return float(lbfgsb.get_gradient_projection_unit_scaling(c0["x"], c0["g"], c0["lb"], c0["ub"]))
    return float(sc)


def coherent(prob, st_, s, mode, what):
    if st_["njev"] < 1:
        return
    fx = prob.obj.f(st_["x"]) * s
    require(st_["fun"] == fx or (np.isnan(fx) and np.isnan(st_["fun"])), f"fun-belongs-to-x[{what}]",
            f"{what}: fun={st_['fun']!r} but f(x)*s={fx!r} (s={s!r}, diff={st_['fun'] - fx:.3e})")
    if mode == "callable":
        gx = prob.obj.g(st_["x"]) * s
        require(np.array_equal(st_["jac"], gx), f"jac-belongs-to-x[{what}]",
                f"{what}: max|jac - g(x)*s| = {float(np.max(np.abs(st_['jac'] - gx))):.3e}")


def check(spec, stats=None):
    rspec = spec["run"]
    prob = build(rspec["problem"])
    mode = rspec["jac"]
    tr = execute(rspec, prob=prob, callback="passive", jac_style=spec.get("jac_style", "fresh"))
    if tr.exc is not None:
        raise tr.exc
    require(tr.user_array_modified == 0, "user-gradient-array-untouched", "the array returned by the user's gradient was modified by the library")
    require(tr.bad_args == 0, "user-callables-receive-args", f"{tr.bad_args} call(s) of fun/jac did not receive exactly the `args` tuple given to the solver")
    s = scale_of(rspec, tr)
    if not np.isfinite(s) or s <= 0:
        raise Discard("scaler value not positive finite")
    for i, c in enumerate(tr.cb):
        coherent(prob, c["snap"], s, mode, f"callback-state#{i}")
        require(c["snap"]["nfev"] == c["nf"], "nfev-equals-calls[callback-state]", f"state.nfev={c['snap']['nfev']} but {c['nf']} objective calls were made so far")
        if mode == "callable":
            require(c["snap"]["njev"] == c["ng"], "njev-equals-calls[callback-state]", f"state.njev={c['snap']['njev']} but {c['ng']} gradient calls were made so far")
    coherent(prob, tr.res, s, mode, "result")
    require(tr.res["nfev"] == tr.nf, "nfev-equals-calls[result]", f"jac={mode!r}: nfev={tr.res['nfev']} but the objective was called {tr.nf} times")
    if mode == "callable":
        require(tr.res["njev"] == tr.ng, "njev-equals-calls[result]", f"njev={tr.res['njev']} but the gradient was called {tr.ng} times")
    last_differs = tr.nf > 0 and not np.array_equal(np.real(tr.fun_calls[-1][0]), tr.res["x"])
    # restart chain
    prev = tr
    nrest = 0
    cfg = dict(rspec["cfg"])
    if "scaler" not in rspec:
        for rs in spec.get("restarts", []):
            c2 = dict(cfg)
            c2["maxiter"] = max(0, prev.res["nit"] + rs["dit"])
            c2["maxfun"] = max(1, prev.res["nfev"] + rs["dfun"])
            if rs.get("maxcor"):
                c2["maxcor"] = rs["maxcor"]
            nxt = run_min(prob, c2, jac_mode=mode, checkpoint=prev.result, x0=np.array(prev.result.x, copy=True), callback="passive")
            if nxt.exc is not None:
                raise Violation("restart-accepted", f"restart raised {type(nxt.exc).__name__}: {nxt.exc}")
            for i, c in enumerate(nxt.cb):
                coherent(prob, c["snap"], 1.0, mode, f"restart-callback-state#{i}")
            if prev.res["njev"] >= 1 or nxt.res["njev"] > prev.res["njev"]:
                coherent(prob, nxt.res, 1.0, mode, "restart-result")
            require(nxt.res["nfev"] == prev.res["nfev"] + nxt.nf, "nfev-equals-checkpoint-plus-calls",
                    f"restart: nfev={nxt.res['nfev']} but checkpoint had {prev.res['nfev']} and {nxt.nf} calls were made since")
            if mode == "callable":
                require(nxt.res["njev"] == prev.res["njev"] + nxt.ng, "njev-equals-checkpoint-plus-calls",
                        f"restart: njev={nxt.res['njev']} but checkpoint had {prev.res['njev']} and {nxt.ng} calls were made since")
            prev, cfg = nxt, c2
            nrest += 1
    if stats is not None:
        stats.case(spec, last_differs or nrest >= 1,
                   [f"jac={mode}", f"last-eval-differs={last_differs}", f"restarts={nrest}", f"scaler={'scaler' in rspec}", f"msg={tr.res['message'][:24]}"],
                   sample={"family": rspec["problem"]["obj"]["family"], "cfg": rspec["cfg"], "jac": mode, "scaler": rspec.get("scaler"), "restarts": spec.get("restarts", [])[:nrest],
                           "nfev": tr.res["nfev"], "nit": tr.res["nit"], "last_evaluated_point_is_result": not last_differs})


@st.composite
def strategy(draw):
    r = draw(run_spec(families=ALL_FAMILIES, n_max=8, jac_modes=("callable", "callable", "callable", None, "2-point", "3-point", "cs"),
                      maxiter=(0, 30), maxfun=(1, 150), small_ls=True, units=True, shift=True, extras=True, ftols=(0.0, 1e-12, 1e-5), gtols=(1e-8, 1e-5, 1e-3),
                      with_scaler=True, with_ftarget=True, allow_degenerate=True))
    nr = draw(st.sampled_from([0, 0, 1, 2, 3]))
    restarts = [{"dit": draw(st.sampled_from([-2, 0, 1, 3, 10])), "dfun": draw(st.sampled_from([-5, 0, 2, 10, 100])), "maxcor": draw(st.sampled_from([None, None, 1, 4]))}
                for _ in range(nr)]
    return {"run": r, "restarts": restarts, "jac_style": draw(st.sampled_from(["fresh", "fresh", "buffer"]))}


def shard(ctx):
    ctx.hyp("histories", strategy(), check, ctx.pick(6000, 150000))


def replay(spec):
    check(spec, None)
