"""C17 -- a gradient scaler is equivalent to minimising the explicitly scaled objective.

Metamorphic oracle: bitwise equality of two runs."""

from __future__ import annotations

import math

import numpy as np
from hypothesis import strategies as st

from vf.core import Discard, Violation, require
from vf.families import Scaled
from vf.observe import MSG_TARGET, run_min, states_equal
from vf.runspec import execute, resolve_ftarget, run_spec
from vf.specs import ALL_FAMILIES, build, loggrid

ID = "C17"
LEVEL = "exploration"
RULE = (
    "Hypothesis draws C04-style fresh runs (all families/boxes/starts, callable gradient -- and differenced gradients {None, 2-point, 3-point} with power-of-two scalers, for which multiplication by s is exact --, ftarget float/callable/None, stopping callback, all budgets) and a scaler value s = 10^u, u in [-3,3] "
    "(powers of two included on purpose) or the packaged projected-gradient unit scaler; the user gradient either returns fresh arrays or one reused output buffer; a third of the pairs carry an update function that changes nothing (the solver then runs its other per-iteration branch). Run 1 uses gradient_scaler; run 2 minimises the harness-built objective s*f, s*grad f without scaler "
    "(ftarget multiplied by s when s is a power of two; otherwise the target clause is judged on run 1 alone). non-trivial = >=2 iterations and s outside [0.5, 2]; distinct = distinct spec"
)
ASSUMPTIONS = [
    "bit equality holds by construction: the harness computes f(x)*s and g(x)*s with the same floating-point operations as the wrapper",
    "cases in which the packaged unit scaler returns a non-finite value (stationary start) are outside the quantifier s in [1e-3,1e3] and are discarded and counted",
]
FIELDS = ("x", "fun", "jac", "nfev", "njev", "nit", "sk", "yk", "message", "success", "status")


def is_pow2(s):
    m, _ = math.frexp(s)
    return m == 0.5


def check(spec, stats=None):
    rspec = dict(spec["run"])
    prob = build(rspec["problem"])
    sc = spec["scaler"]
    x0c = np.clip(prob.x0, prob.lb, prob.ub)
    if sc == "unit":
        import lbfgsb

        g0 = prob.obj.g(x0c)
        s = float(lbfgsb.get_gradient_projection_unit_scaling(x0c, g0, prob.lb, prob.ub))
    else:
        s = float(sc)
    if not np.isfinite(s) or s <= 0 or not (1e-3 <= s <= 1e3 or sc == "unit"):
        raise Discard("scaler value outside (0, inf) / not finite")
    ft, ftv = resolve_ftarget(rspec, prob)
    r1 = dict(rspec)
    r1["scaler"] = sc
    style = spec.get("jac_style", "fresh")
    # an update function that changes nothing (the hook is present, the objective is not redefined) takes the solver
    # through its other per-iteration branch; the equivalence must hold there too
    hook = {"update_fun_def": "identity"} if spec.get("hook") else {}
    t1 = execute(r1, prob=prob, jac_style=style, **hook)
    if t1.exc is not None:
        raise t1.exc
    require(t1.user_array_modified == 0, "user-gradient-array-untouched", "the array returned by the user's gradient was modified by the library")
    # scaler protocol
    mode = rspec.get("jac", "callable")
    if t1.res["njev"] >= 1:
        require(len(t1.scaler_calls) == 1, "scaler-invoked-once", f"scaler called {len(t1.scaler_calls)} times although a gradient was computed")
        c = t1.scaler_calls[0]
        require(np.array_equal(c["x"], x0c), "scaler-arguments", "scaler not called with the (clipped) start point")
        if mode == "callable":
            require(np.array_equal(c["g"], prob.obj.g(x0c)), "scaler-arguments", f"scaler not called with the unscaled gradient at the start: got {c['g'].tolist()} want {prob.obj.g(x0c).tolist()}")
        require(np.array_equal(c["lb"], prob.lb) and np.array_equal(c["ub"], prob.ub), "scaler-arguments", "scaler not called with the bounds")
    else:
        require(len(t1.scaler_calls) <= 1, "scaler-invoked-once", f"scaler called {len(t1.scaler_calls)} times")
    # target on the unscaled value
    if ftv is not None:
        if t1.res["message"] == MSG_TARGET:
            require(t1.res["fun"] / s <= ftv if t1.res["njev"] >= 1 else t1.res["fun"] <= ftv, "target-tested-on-unscaled-value",
                    f"TARGET message with fun/s = {t1.res['fun'] / s!r} > ftarget = {ftv!r}")
    compare = True
    r2 = dict(rspec)
    r2.pop("scaler", None)
    ft2 = None
    boundary_ok = False
    if ft is not None:
        ft2 = ("callable", ftv * s) if isinstance(ft, tuple) else ftv * s
        # for s not a power of two, f*s <= ft*s and (f*s)/s <= ft can disagree at a rounding
        # boundary: a difference is then tolerated only if a TARGET stop is involved
        boundary_ok = not is_pow2(s)
    if compare:
        over = {}
        if ft is not None:
            over["ftarget"] = ft2
        t2 = execute(r2, prob=prob, obj=Scaled(prob.obj, s), jac_style=style, **over, **hook)
        if t2.exc is not None:
            raise t2.exc
        early = t1.res["njev"] == 0  # target met at the start: run 1 returns the unscaled f0, run 2 returns s*f0
        if not early:
            d = states_equal(t1.res, t2.res, fields=FIELDS)
            if d is not None and boundary_ok and MSG_TARGET in (t1.res["message"], t2.res["message"]):
                compare = False
                d = None
                if stats is not None:
                    stats.bump("target-rounding-boundary-not-compared")
            elif d is not None:
                raise Violation(f"equivalent-to-scaled-objective[{d}]",
                                f"s={s!r}: field {d!r} with scaler {t1.res[d]!r} vs explicitly scaled objective {t2.res[d]!r}")
            same_pts = len(t1.fun_calls) == len(t2.fun_calls) and all(np.array_equal(a[0], b[0]) for a, b in zip(t1.fun_calls, t2.fun_calls)) \
                and len(t1.jac_calls) == len(t2.jac_calls) and all(np.array_equal(a[0], b[0]) for a, b in zip(t1.jac_calls, t2.jac_calls))
            require(same_pts or not compare, "equivalent-to-scaled-objective[visited-points]", f"s={s!r}: the two runs evaluate different points")
        else:
            require(t2.res["njev"] == 0 and t2.res["message"] == t1.res["message"], "equivalent-to-scaled-objective[early-target]",
                    f"early target stop differs: {t1.res['message']!r} vs {t2.res['message']!r}")
    if stats is not None:
        stats.case(spec, t1.res["nit"] >= 2 and not (0.5 <= s <= 2.0),
                   [f"scaler={'unit' if sc == 'unit' else 'pow2' if is_pow2(s) else 'const'}", f"compared={compare}", f"jac_style={style}", f"identity_update_hook={bool(hook)}", f"msg={t1.res['message'][:26]}",
                    f"nit={'0' if t1.res['nit'] == 0 else '1' if t1.res['nit'] == 1 else '2+'}", f"jac={mode}"],
                   sample={"family": rspec["problem"]["obj"]["family"], "s": s, "cfg": rspec["cfg"], "ftarget": rspec.get("ftarget"), "compared_bitwise": compare})


@st.composite
def strategy(draw):
    r = draw(run_spec(families=ALL_FAMILIES, n_max=8, jac_modes=("callable", "callable", "callable", None, "2-point", "3-point"), maxiter=(0, 30), maxfun=(1, 150), units=True, ftols=(0.0, 1e-12, 1e-5, 1e-2), gtols=(1e-8, 1e-5, 1e-3),
                      with_ftarget=True, with_callback_stop=True, gtol_callable=True, extras=True))
    k = draw(st.sampled_from(["const", "const", "pow2", "unit"]))
    if r["jac"] != "callable":
        # with a differenced gradient the two runs are bit-identical only when multiplying by s is exact
        k = "pow2"
    if k == "const":
        sc = draw(loggrid(-3, 3, 60))
    elif k == "pow2":
        sc = 2.0 ** draw(st.integers(-9, 9))
    else:
        sc = "unit"
    return {"run": r, "scaler": sc, "jac_style": draw(st.sampled_from(["fresh", "fresh", "buffer"])), "hook": draw(st.sampled_from([False, False, True]))}


def shard(ctx):
    ctx.hyp("pairs", strategy(), check, ctx.pick(5000, 80000))


def replay(spec):
    check(spec, None)
