"""C07 -- the callback state is a faithful snapshot usable as a crash checkpoint.

Every callback invocation of every generated run is a crash point."""

from __future__ import annotations

import numpy as np
from hypothesis import strategies as st

from vf.core import Discard, Violation, require
from vf.observe import InjectedFault, MSG_ITER, continuation_is_well_conditioned, run_min, snapshot_state, states_equal
from vf.runspec import run_spec
from vf.specs import ALL_FAMILIES, build
from vf.props.c06 import check_next, restart

ID = "C07"
LEVEL = "fault_enumeration"
RULE = (
    "Hypothesis draws a run (all families/boxes/starts, callable or differenced gradient, maxcor 1..10, horizon K<=25, small maxls allowed). Every callback invocation k is a crash point: "
    "(a) state_k (deep copy taken inside the callback) vs the result of a fresh run with maxiter=k, bitwise on x, fun, jac, nfev, njev, nit, sk, yk; (b) the retained live state and xk are "
    "unchanged when the run ends; (c) run with a False-returning callback vs run without callback, bitwise on result and evaluation log; (d) the objective raises at a drawn later call "
    "(crash), the harness restarts from the last retained state and compares the next iterate with the uninterrupted run. non-trivial = k>=2 and the state holds >=1 pair (for (d): the crash "
    "falls inside a line search); plus a dedicated generator in which the uninterrupted run and the restart share a maxfun only 1..4 evaluations above the count at the crash point (hard line-search families), so that the evaluation budget binds inside the next line search; and a generator with maxls 1..3, maxcor 1..3 on hard families so that line searches fail, the memory is reset in mid-run, refilled and overflows again before the crash point; distinct = distinct (run spec, k)"
)
ASSUMPTIONS = [
    "a crash is modelled by an exception raised from the user's objective at a later call; the process state the user keeps is the last callback state object itself (not a copy)",
    "continuation after a crash is compared as in C06(b): 1e-7 of the step + 1e-9*max(1,|x|)",
]


def check(spec, stats=None):
    rspec = spec["run"]
    prob = build(rspec["problem"])
    cfg = dict(rspec["cfg"])
    K = cfg["maxiter"]
    mode = rspec.get("jac", "callable")
    from vf.props.c03 import watch_linesearch

    with watch_linesearch(None) as lslog:
        full = run_min(prob, cfg, callback="passive", jac_mode=mode)
    if full.exc is not None:
        raise full.exc
    ls_failed = sum(1 for e in lslog if e["ret"] is None)
    # (c) callback presence does not alter the run
    plain = run_min(prob, cfg, jac_mode=mode)
    if plain.exc is not None:
        raise plain.exc
    diff = states_equal(full.res, plain.res, fields=("x", "fun", "jac", "nfev", "njev", "nit", "sk", "yk", "message", "success", "status"))
    require(diff is None, "passive-callback-does-not-alter-run", f"result field {diff!r} differs between run with a False-returning callback and run without")
    require(len(full.fun_calls) == len(plain.fun_calls) and all(np.array_equal(a[0], b[0]) for a, b in zip(full.fun_calls, plain.fun_calls)),
            "passive-callback-does-not-alter-run", "objective evaluation log differs with/without callback")
    # (b) retained objects unchanged after the run
    for i, c in enumerate(full.cb):
        live = snapshot_state(c["live"])
        d = states_equal(c["snap"], live)
        require(d is None, "state-immutable-after-callback",
                f"field {d!r} of the state given to callback #{i} changed after the callback returned (snap nit={c['snap']['nit']})")
        require(np.array_equal(c["xk"], c["xk_live"]), "state-immutable-after-callback", f"xk given to callback #{i} changed later")
        require(np.array_equal(c["xk"], c["snap"]["x"]), "xk-equals-state-x", f"callback #{i}: xk != state.x")
    # (a) state_k == result of run(maxiter=k)
    refs = {}
    ncb = len(full.cb)
    which = range(ncb) if spec.get("all_k", True) else sorted(set(min(i, ncb - 1) for i in spec["ks"])) if ncb else []
    for i in which:
        c = full.cb[i]
        k = c["snap"]["nit"]
        require(1 <= k <= K, "nit-is-iteration-count", f"callback #{i} reports nit={k} in a run with maxiter={K}")
        cfg_k = dict(cfg)
        cfg_k["maxiter"] = k
        rk = run_min(prob, cfg_k, jac_mode=mode)
        if rk.exc is not None:
            raise rk.exc
        refs[k] = rk
        d = states_equal(c["snap"], rk.res)
        if d is not None:
            a, b = c["snap"][d], rk.res[d]
            raise Violation(f"state-equals-maxiter-k-result[{d}]",
                            f"callback #{i} (state.nit={k}): field {d!r} = {np.asarray(a).tolist() if isinstance(a, np.ndarray) else a!r} but run(maxiter={k}) returns "
                            f"{np.asarray(b).tolist() if isinstance(b, np.ndarray) else b!r}")
        if stats is not None:
            stats.case({"run": rspec, "k": k}, k >= 2 and c["snap"]["sk"].shape[0] >= 1, ["kind=snapshot", f"pairs={min(c['snap']['sk'].shape[0], 3)}"],
                       sample={"family": rspec["problem"]["obj"]["family"], "n": prob.n, "maxiter": K, "k": k, "pairs": int(c["snap"]["sk"].shape[0])})
    # (d) crash after callback i, restart from the retained state
    for (ci, off) in spec.get("crashes", []):
        if ncb == 0:
            break
        i = min(ci, ncb - 1)
        c = full.cb[i]
        k = c["snap"]["nit"]
        if k >= full.res["nit"]:
            continue  # nothing happens after the last iteration
        j = c["nf"] + off
        if j >= len(full.fun_calls):
            continue
        crashed = run_min(prob, cfg, callback="passive", jac_mode=mode, fault={"kind": "fun", "index": j, "exc": InjectedFault("power cut")})
        if crashed.exc is None or not isinstance(crashed.exc, InjectedFault):
            raise Violation("crash-propagates", f"objective raised at call {j} but the run returned / raised {crashed.exc!r}")
        kept = crashed.cb[-1]
        kk = kept["snap"]["nit"]
        d = states_equal(kept["snap"], snapshot_state(kept["live"]))
        require(d is None, "state-immutable-after-callback", f"retained state field {d!r} changed between the callback and the crash")
        cfg1 = dict(cfg)
        cfg1["maxiter"] = kk + 1
        ref1 = run_min(prob, cfg1, jac_mode=mode)
        cfg0 = dict(cfg)
        cfg0["maxiter"] = kk
        ref0 = refs.get(kk) or run_min(prob, cfg0, jac_mode=mode)
        if ref1.exc is not None or ref0.exc is not None:
            raise (ref1.exc or ref0.exc)
        c_rs = dict(cfg)
        c_rs["maxiter"] = kk + 1
        rs = run_min(prob, c_rs, checkpoint=kept["live"], x0=np.array(kept["live"].x, copy=True), jac_mode=mode)
        if rs.exc is not None:
            raise Violation("restart-from-callback-state", f"restart from the state of iteration {kk} raised {type(rs.exc).__name__}: {rs.exc}")
        if ref0.res["message"] == MSG_ITER and ref0.res["nit"] == kk:
            check_next(ref0.res, ref1.res, rs.res, "after-crash", ref1 if mode == "callable" else None, rs if mode == "callable" else None, stats,
                       probe=lambda tol: continuation_is_well_conditioned(
                           lambda c: run_min(prob, c_rs, checkpoint=c, x0=np.array(kept["live"].x, copy=True), jac_mode=mode), kept["live"], rs.res["x"], tol))
            # when the continuation cost exactly as many objective evaluations as in the uninterrupted run it went
            # through the same steps, so it computed the same number of gradients: njev must have resumed from the
            # state's njev (with differenced gradients nfev and njev differ, so a mix-up of the two shows here)
            if rs.res["nfev"] - kept["snap"]["nfev"] == ref1.res["nfev"] - ref0.res["nfev"] and np.array_equal(rs.res["x"], ref1.res["x"]):
                require(rs.res["njev"] - kept["snap"]["njev"] == ref1.res["njev"] - ref0.res["njev"], "counters-resumed[njev]",
                        f"jac={mode!r}: restart from state k={kk} (nfev={kept['snap']['nfev']}, njev={kept['snap']['njev']}) ends with njev={rs.res['njev']}; "
                        f"the uninterrupted run goes from njev={ref0.res['njev']} to {ref1.res['njev']} with the same number of evaluations")
        if stats is not None:
            mid_ls = off >= 1
            stats.case({"run": rspec, "crash": [i, off]}, kk >= 1 and mid_ls, ["kind=crash-restart", f"mid_linesearch={mid_ls}", f"line_search_failures_in_run={min(ls_failed, 2)}",
                                                                            f"restart_after_memory_reset={bool(ls_failed) and kept['snap']['sk'].shape[0] < min(kk, cfg['maxcor'])}"],
                       sample={"family": rspec["problem"]["obj"]["family"], "crash_at_objective_call": j, "restart_from_nit": kk})
    if stats is not None and ncb == 0:
        stats.case({"run": rspec}, False, ["no-callback-fired"])


def check_tight_budget(spec, stats=None):
    """Crash + restart when the evaluation budget is about to bind: the uninterrupted run and the run restarted
    from the retained state get the *same* maxfun, chosen 1..4 evaluations above the count at the crash point, so
    the next line search is cut by `maxfun - nfev` in both -- if that budget is derived from the same state."""
    rspec = spec["run"]
    prob = build(rspec["problem"])
    cfg = dict(rspec["cfg"])
    probe = run_min(prob, cfg, callback="passive")
    if probe.exc is not None:
        raise probe.exc
    if len(probe.cb) < 2:
        if stats is not None:
            stats.case(spec, False, ["kind=tight-budget", "too-short"])
        return
    i = min(spec["i"], len(probe.cb) - 2)
    kept = probe.cb[i]
    k = kept["snap"]["nit"]
    cfg2 = dict(cfg)
    cfg2["maxfun"] = kept["snap"]["nfev"] + spec["delta"]
    cfg2["maxiter"] = k + 1
    # The tight maxfun is itself an argument of the run: it caps the number of line-search iterations of *earlier*
    # iterations too (trial points that coincide with the memoised point cost no evaluation but count as
    # iterations), so the run is redone under it and the retained state is taken from that run.
    ref1 = run_min(prob, cfg2, callback="passive")  # uninterrupted, same arguments
    if ref1.exc is not None:
        raise ref1.exc
    same_k = [c for c in ref1.cb if c["snap"]["nit"] == k]
    if not same_k:
        if stats is not None:
            stats.case(spec, False, ["kind=tight-budget", "too-short"])
        return
    kept = same_k[0]
    cfg0 = dict(cfg2)
    cfg0["maxiter"] = k
    ref0 = run_min(prob, cfg0)
    if ref1.exc is not None or ref0.exc is not None:
        raise (ref1.exc or ref0.exc)
    d = states_equal(kept["snap"], ref0.res)
    require(d is None, f"state-equals-maxiter-k-result[{d}]", f"tight budget: state of iteration {k} differs from run(maxiter={k}) in {d!r}")
    rs = restart(prob, cfg2, kept["live"], k + 1)
    if rs.exc is not None:
        raise Violation("restart-from-callback-state", f"restart raised {type(rs.exc).__name__}: {rs.exc}")
    if ref0.res["nit"] == k:
        check_next(ref0.res, ref1.res, rs.res, "after-crash-tight-budget", ref1, rs, stats,
                   probe=lambda tol: continuation_is_well_conditioned(lambda c: restart(prob, cfg2, c, k + 1), kept["live"], rs.res["x"], tol))
    if stats is not None:
        used = ref1.res["nfev"] - ref0.res["nfev"]
        binding = used >= spec["delta"]
        stats.case(spec, binding, ["kind=tight-budget", f"budget-binding={binding}"],
                   sample={"family": rspec["problem"]["obj"].get("bench", rspec["problem"]["obj"]["family"]), "crash_after_iteration": k, "nfev_at_crash": kept["snap"]["nfev"],
                           "maxfun": cfg2["maxfun"], "evaluations_in_next_iteration": used})


@st.composite
def tight_budget_strategy(draw):
    r = draw(run_spec(families=("rosenbrock", "rosenbrock", "badscale", "sines", "bench", "qp_quartic"), n_max=6, jac_modes=("callable",), maxiter=(3, 20), maxfun=(400, 400),
                      ftols=(0.0,), gtols=(1e-10,), narrow=draw(st.booleans())))
    return {"run": r, "i": draw(st.integers(0, 18)), "delta": draw(st.sampled_from([1, 1, 2, 2, 3, 4]))}


@st.composite
def strategy(draw):
    r = draw(run_spec(families=ALL_FAMILIES, n_max=8, jac_modes=("callable", "callable", "callable", None, "2-point"), maxiter=(1, 25), maxfun=(30, 400), small_ls=draw(st.booleans()),
                      ftols=(0.0, 1e-12), gtols=(1e-10, 1e-6)))
    crashes = draw(st.lists(st.tuples(st.integers(0, 24), st.integers(0, 3)), min_size=1, max_size=4))
    return {"run": r, "all_k": True, "crashes": crashes}


@st.composite
def reboot_strategy(draw):
    """Runs in which line searches fail (maxls 1..3 on hard families), so that the solver resets its memory in mid-run and
    refills it, with a small maxcor so that the refilled memory overflows again before the crash point."""
    r = draw(run_spec(families=("rosenbrock", "badscale", "sines", "bench", "qp_softplus", "qp_quartic", "badscale"), n_max=6, jac_modes=("callable",), maxiter=(8, 30), maxfun=(600, 600),
                      ftols=(0.0,), gtols=(1e-10,), maxcor_max=3, narrow=draw(st.booleans())))
    r["cfg"]["maxls"] = draw(st.sampled_from([1, 2, 2, 3]))
    crashes = draw(st.lists(st.tuples(st.integers(3, 29), st.integers(0, 2)), min_size=2, max_size=4))
    return {"run": r, "all_k": False, "ks": [c[0] for c in crashes], "crashes": crashes}


def shard(ctx):
    ctx.hyp("crash-points", strategy(), check, ctx.pick(2500, 15000))
    ctx.hyp("crash-after-memory-reset", reboot_strategy(), check, ctx.pick(1500, 15000))
    ctx.hyp("crash-with-tight-budget", tight_budget_strategy(), check_tight_budget, ctx.pick(3000, 40000))


def replay(spec):
    if "delta" in spec:
        check_tight_budget(spec, None)
    else:
        check(spec, None)
