"""C02 -- every evaluated, reported and returned point lies inside the box, exactly."""

from __future__ import annotations

import numpy as np
from hypothesis import strategies as st

from vf.core import Discard, Violation, require
from vf.runspec import JAC_MODES, execute, run_spec
from vf.specs import ALL_FAMILIES, build

ID = "C02"
LEVEL = "exploration"
RULE = (
    "Hypothesis draws runs over all objective families x boxes (biased narrow, every bound kind incl. lb==ub) x feasible starts on faces/vertices x "
    "{callable, None, 2-point, 3-point, cs} x maxcor/maxls/maxiter 0..60/maxfun 1..400 (problems also in other units, with args / per-variable steps / line-search options), a third of the starts handed over as float32 / float16 / int64 arrays (feasible in that dtype), plus re-entrant objectives that run an inner minimisation with another box; every argument of fun/jac (stencil points included), every callback "
    "iterate and the result are tested with exact comparisons. non-trivial = the run did >=1 iteration and some logged point has a component exactly on a finite bound; "
    "distinct = distinct run spec; a fifth of the problems are also translated far from the origin (x -> x+T, |T| = 1e2..1e6: bounds and iterates of large magnitude compared with the box)"
)
ASSUMPTIONS = [
    "the harness's closures see every point the solver hands to the user's callables",
    "in 'cs' mode the real part of the complex stencil point is the point judged",
]


def in_box(x, lb, ub):
    x = np.real(np.asarray(x))
    return bool(np.all(x >= lb) and np.all(x <= ub))


def cast_feasible(x0, lb, ub, dtype):
    """x0 in the requested dtype and still inside the box (a start is feasible by the premise of the property): components
    that the cast pushes outside are moved to the neighbouring representable value inside; None if there is none."""
    if dtype == "int64":
        x = np.round(x0)
        x = np.where(x < lb, np.ceil(lb), x)
        x = np.where(x > ub, np.floor(ub), x)
        if not np.all(np.isfinite(x)) or not (np.all(x >= lb) and np.all(x <= ub)) or np.any(np.abs(x) > 2**53):
            return None
        return x.astype(np.int64)
    with np.errstate(over="ignore"):
        x = x0.astype(dtype)
    for _ in range(2):
        xf = x.astype(np.float64)
        x = np.where(xf < lb, np.nextafter(x, np.array(np.inf, dtype=dtype)), x)
        x = np.where(xf > ub, np.nextafter(x, np.array(-np.inf, dtype=dtype)), x).astype(dtype)
    xf = x.astype(np.float64)
    if not np.all(np.isfinite(xf)) or not (np.all(xf >= lb) and np.all(xf <= ub)):
        return None
    return x


def check(rspec, stats=None):
    prob = build(rspec["problem"])
    lb, ub = prob.lb, prob.ub
    fixed = lb == ub
    over = {}
    if rspec.get("x0_dtype"):
        xc = cast_feasible(np.clip(prob.x0, lb, ub), lb, ub, rspec["x0_dtype"])
        if xc is not None:
            over["x0"] = xc
        elif stats is not None:
            stats.bump("no-feasible-start-in-that-dtype(float64 used)")
    tr = execute(rspec, prob=prob, callback="passive", **over)
    mode = rspec["jac"]

    def judge(x, what):
        xr = np.real(np.asarray(x, dtype=complex if np.iscomplexobj(x) else float))
        if not in_box(xr, lb, ub):
            below = np.nonzero(xr < lb)[0]
            above = np.nonzero(xr > ub)[0]
            i = int(below[0]) if below.size else int(above[0])
            bnd = lb[i] if below.size else ub[i]
            ulps = abs(xr[i] - bnd) / max(np.spacing(abs(bnd)), 5e-324)
            raise Violation(f"inside-box[{what}]", f"jac={mode!r}: component {i} = {xr[i]!r} vs bound {bnd!r} ({ulps:.1f} ulp) in {what}")
        if np.any(fixed) and not np.array_equal(xr[fixed], lb[fixed]):
            raise Violation(f"fixed-variables-never-move[{what}]", f"jac={mode!r}: x[fixed]={xr[fixed].tolist()} lb={lb[fixed].tolist()}")

    for x, _ in tr.fun_calls:
        judge(x, "objective-evaluation")
    for x, _ in tr.jac_calls:
        judge(x, "gradient-evaluation")
    for c in tr.cb:
        judge(c["xk"], "callback-xk")
        judge(c["snap"]["x"], "callback-state.x")
    if tr.exc is not None:
        msg = str(tr.exc)
        if isinstance(tr.exc, ValueError) and "violates bound constraints" in msg:
            raise Violation("inside-box[fd-stencil-base-point]", f"jac={mode!r}: approx_derivative refused a base point outside the box: {msg}")
        if stats is not None:
            stats.bump("other-exception:" + type(tr.exc).__name__)
    else:
        judge(tr.res["x"], "result.x")
    if stats is not None:
        nit = tr.res["nit"] if tr.res else len(tr.cb)
        pts = [np.real(x) for x, _ in tr.fun_calls]
        on = any(bool(np.any((p == lb) | (p == ub))) for p in pts)
        stats.case(rspec, nit >= 1 and on and bool(np.any(np.isfinite(lb) | np.isfinite(ub))),
                   [f"jac={mode}", f"nit={'0' if nit == 0 else '1-5' if nit <= 5 else '6+'}", f"onbound={on}",
                    f"family={rspec['problem']['obj'].get('bench', rspec['problem']['obj']['family'])}", f"x0_dtype={str(over['x0'].dtype) if 'x0' in over else 'float64'}"])


def check_nested(spec, stats=None):
    """The user's objective may itself call the minimiser (bilevel problems, multi-start inside a callback ...).
    Every point at which the *outer* objective is evaluated must lie in the *outer* box -- whatever boxes other,
    nested, runs use."""
    outer = build(spec["outer"]["problem"])
    inner = build(spec["inner"]["problem"])
    from vf.observe import Trace, run_min

    lb, ub = outer.lb, outer.ub
    nest_every = spec["nest_every"]
    state = {"n": 0, "busy": False}

    def gate(kind):
        if kind != "f" or state["busy"]:
            return
        state["n"] += 1
        if state["n"] % nest_every == 0:
            state["busy"] = True
            try:
                run_min(inner, dict(spec["inner"]["cfg"]), jac_mode=spec["inner"]["jac"])
            finally:
                state["busy"] = False

    tr = run_min(outer, dict(spec["outer"]["cfg"]), jac_mode=spec["outer"]["jac"], gate=gate, callback="passive")
    if tr.exc is not None:
        msg = str(tr.exc)
        if isinstance(tr.exc, ValueError) and ("bound" in msg.lower() or "shape" in msg.lower()):
            raise Violation("inside-box[nested-run-disturbs-outer-stencil]", f"outer run raised {type(tr.exc).__name__}: {msg[:160]}")
        raise tr.exc
    for x, _ in tr.fun_calls:
        xr = np.real(x)
        if not in_box(xr, lb, ub):
            i = int(np.nonzero((xr < lb) | (xr > ub))[0][0])
            raise Violation("inside-box[objective-evaluation,nested]", f"outer jac={spec['outer']['jac']!r}: component {i} = {xr[i]!r} outside [{lb[i]!r}, {ub[i]!r}] while an inner run with another box was nested in the objective")
    if stats is not None:
        on = any(bool(np.any((np.real(x) == lb) | (np.real(x) == ub))) for x, _ in tr.fun_calls)
        stats.case(spec, on and tr.res["nit"] >= 1, ["kind=nested", f"jac={spec['outer']['jac']}", f"onbound={on}"],
                   sample={"outer": spec["outer"]["problem"]["obj"]["family"], "inner": spec["inner"]["problem"]["obj"]["family"], "outer_jac": spec["outer"]["jac"], "inner_jac": spec["inner"]["jac"]})


@st.composite
def nested_strategy(draw):
    fd = (None, "2-point", "3-point")
    o = draw(run_spec(families=ALL_FAMILIES, n_max=4, jac_modes=fd, maxiter=(1, 8), maxfun=(5, 80), narrow=True, ftols=(0.0,), gtols=(1e-8,), box_mode=draw(st.sampled_from(["boxed", "mixed"]))))
    i = draw(run_spec(families=ALL_FAMILIES, n_max=4, jac_modes=fd + ("callable",), maxiter=(1, 4), maxfun=(3, 30), ftols=(0.0,), gtols=(1e-8,)))
    return {"outer": o, "inner": i, "nest_every": draw(st.sampled_from([1, 2, 3, 5]))}


@st.composite
def strategy(draw):
    r = draw(run_spec(families=ALL_FAMILIES, n_max=10, jac_modes=JAC_MODES + ("callable",), maxiter=(0, 60), maxfun=(1, 400), narrow=True, units=True, shift=True, extras=True,
                      ftols=(0.0, 1e-12, 1e-5), gtols=(1e-8, 1e-6, 1e-5)))
    # the start handed over in a narrower or integer dtype (the bounds are generic float64 numbers, hence not representable in it)
    k = draw(st.sampled_from([None, None, None, None, "float32", "float16", "int64"]))
    if k:
        r["x0_dtype"] = k
    return r


def shard(ctx):
    ctx.hyp("runs", strategy(), check, ctx.pick(12000, 200000))
    ctx.hyp("nested", nested_strategy(), check_nested, ctx.pick(1500, 25000))


def replay(spec):
    if "outer" in spec:
        check_nested(spec, None)
    else:
        check(spec, None)
