"""C09 -- subspace minimisation returns the box-truncated Newton point of the model.

Reference model: dense reduced Newton step + truncation, fed with the harness's own
reference Cauchy point (independent of the implementation judged under C08)."""

from __future__ import annotations

import numpy as np
from hypothesis import strategies as st
from scipy.sparse import csc_matrix

from vf.core import Discard, Violation, require
from vf.props.c08 import build_mats, case as c08_case, run_spec as c08_run_spec
from vf.refmodels import char_len, compact_B_from_mats, model_value, ref_cauchy_point, ref_subspace_point

ID = "C09"
LEVEL = "exploration"
RULE = (
    "Hypothesis draws (x, g, box, 0..maxcor positive-curvature pairs) as in C08(ii) (incl. inert variables whose reduced step component is exactly zero), n=1..10; the harness computes the reference Cauchy point and c = W'(xc-x) itself and calls "
    "lbfgsb.subspacemin.subspace_minimization; plus the calls intercepted in real box runs (as in C08(iii)); a third of the generated cases call the routine again with the same matrices object at other points of the box (other free sets). Oracle: active variables bit-identical to xc, point equal to the dense reduced-Newton reference "
    "truncated by the largest alpha<=1 (1e-7 relative), model value not above m(xc), descent direction. non-trivial = the free step is truncated by the box (alpha*<1) or the free set is a proper "
    "non-empty subset with >=1 pair in memory; distinct = distinct input"
)
ASSUMPTIONS = ["the dense B is densified from the model state the routine is given (theta, W, invMfactors)", "box feasibility of the result is judged exactly under C02; here a 4-ulp allowance"]
EPS = 2.220446049250313e-16


def zmat(n, free):
    idx = np.nonzero(free)[0]
    act = np.nonzero(~free)[0]
    Z = csc_matrix((np.ones(idx.size), (idx, np.arange(idx.size))), shape=(n, idx.size))
    A = csc_matrix((np.ones(act.size), (act, np.arange(act.size))), shape=(n, act.size))
    return idx, Z, A


def judge(x, g, lb, ub, mats, xc, xbar, stats=None, tag="syn"):
    n = x.size
    B = compact_B_from_mats(mats, n)
    ev = np.linalg.eigvalsh(0.5 * (B + B.T))
    if ev.min() <= 1e-10 * max(ev.max(), 1e-300):
        raise Discard("model not numerically SPD")
    xbar = np.asarray(xbar, dtype=float)
    require(xbar.shape == x.shape and bool(np.all(np.isfinite(xbar))), "finite", f"[{tag}] xbar={xbar}")
    free = (xc != lb) & (xc != ub)
    require(np.array_equal(xbar[~free], xc[~free]), "active-variables-fixed", f"[{tag}] an active variable moved: xc={xc[~free].tolist()} xbar={xbar[~free].tolist()}")
    ref, alpha = ref_subspace_point(x, g, lb, ub, B, xc)
    L0 = char_len(x, g, lb, ub, float(mats.theta), ref - x)
    # resolution floor: when the whole step is worth less than ~10^4 ulps of x, every quantity below is rounding
    # noise (runs intercepted with gtol=0 end there); only the exact clause above is judged
    pg_now = float(np.max(np.abs(np.clip(x - g, lb, ub) - x)))
    if max(pg_now / max(float(mats.theta), 1e-300), float(np.max(np.abs(ref - x)))) <= 1e4 * EPS * max(float(np.max(np.abs(x))), 1e-300):
        if stats is not None:
            stats.bump("at-resolution-floor(only-exact-clauses)")
        return alpha, free
    sc = np.maximum(L0, np.abs(ref))
    dev = float(np.max(np.abs(xbar - ref) / sc))
    require(dev <= 1e-7, "truncated-newton-point", f"[{tag}] xbar deviates {dev:.3e} (rel) from the dense reference; alpha*_ref={alpha:.6g}, free={int(free.sum())}/{n}")
    slack = 4 * EPS * np.maximum(L0, np.maximum(np.abs(np.where(np.isfinite(lb), lb, 0)), np.abs(np.where(np.isfinite(ub), ub, 0))))
    require(bool(np.all(xbar >= lb - slack) and np.all(xbar <= ub + slack)), "inside-box", f"[{tag}] xbar outside the box")
    m_c, m_b = model_value(x, g, B, xc), model_value(x, g, B, xbar)
    tol = 1e-9 * (abs(m_c) + abs(float(g @ (xbar - x))) + float(np.linalg.norm(B, 2)) * float((xbar - x) @ (xbar - x))) + 1e-300
    # a point can only be represented to one ulp of its coordinates: rounding the ideal xbar onto the floating-point
    # grid changes the model value by up to |grad m on the free variables| * ulp (visible only at the resolution floor)
    rfree = (g + B @ (xbar - x))[free]
    tol += 4 * EPS * float(max(np.max(np.abs(x)), np.max(np.abs(xbar)))) * float(np.sum(np.abs(rfree))) if rfree.size else 0.0
    require(m_b <= m_c + tol, "model-not-increased", f"[{tag}] m(xbar)={m_b:.6e} > m(xc)={m_c:.6e}")
    pg = float(np.max(np.abs(np.clip(x - g, lb, ub) - x)))
    d = xbar - x
    if pg > 0 and abs(m_b) > 1e-12 * (abs(float(g @ d)) + 1e-300) and np.any(d != 0):
        require(float(g @ d) < 0, "descent-direction", f"[{tag}] g'(xbar-x) = {float(g @ d):.3e} >= 0 with projected gradient {pg:.3e}")
    if stats is not None:
        stats.maxi("max_rel_dev_from_reference", dev)
    return alpha, free


def run_case(spec, stats=None):
    from lbfgsb.subspacemin import subspace_minimization

    n = spec["n"]
    x = np.array(spec["x"], dtype=float)
    g = np.array(spec["g"], dtype=float)
    lb = np.array([-np.inf if v is None else v for v in spec["lb"]], dtype=float)
    ub = np.array([np.inf if v is None else v for v in spec["ub"]], dtype=float)
    mats, npairs = build_mats(n, spec["S"], spec["Y"], spec["maxcor"])
    if float(np.max(np.abs(np.clip(x - g, lb, ub) - x))) == 0.0:
        raise Discard("zero projected gradient (precondition)")
    B = compact_B_from_mats(mats, n)
    ev = np.linalg.eigvalsh(0.5 * (B + B.T))
    if ev.min() <= 1e-10 * max(ev.max(), 1e-300):
        raise Discard("model not numerically SPD")
    xc, _ = ref_cauchy_point(x, g, lb, ub, B)
    xc = np.clip(xc, lb, ub)
    c = (np.asarray(mats.W).T @ (xc - x)) if mats.use_factor else np.zeros(np.asarray(mats.W).shape[1])
    free = (xc != lb) & (xc != ub)
    idx, Z, A = zmat(n, free)
    if spec.get("use_get_freev", True):
        # the partition the solver itself would hand over (lbfgsb.subspacemin.get_freev): "free" means not on a bound, exactly
        from lbfgsb.subspacemin import get_freev

        idx2, Z, A = get_freev(xc, lb, ub, spec.get("iter", 1), None, -1, None)
        require(np.array_equal(np.sort(np.asarray(idx2)), idx), "free-set-is-exactly-the-variables-off-their-bounds",
                f"get_freev returns {np.asarray(idx2).tolist()} but the variables of xc that are not on a bound are {idx.tolist()}")
        idx = np.asarray(idx2)
    ins = (x.copy(), xc.copy(), g.copy(), c.copy())
    xbar = subspace_minimization(x, xc, idx, Z, A, c, g, lb, ub, mats)
    require(all(np.array_equal(a, b) for a, b in zip(ins, (x, xc, g, c))), "inputs-untouched", "x, xc, g or c modified in place")
    alpha, free = judge(x, g, lb, ub, mats, xc, xbar, stats)
    # the routine called again with the same matrices object at other points of the same box (the solver does that when the
    # newest pair is rejected): the answer must depend on the arguments only -- judged against matrices built afresh
    from vf.props.c08 import mats_equal, mats_snapshot

    fresh, _ = build_mats(n, spec["S"], spec["Y"], spec["maxcor"])
    snap = mats_snapshot(fresh)
    require(mats_equal(snap, mats_snapshot(mats)), "model-untouched", "the matrices object handed to the subspace minimisation was modified by the call")
    for k, alt in enumerate(spec.get("again", [])):
        x2 = np.clip(np.array(alt["x"], dtype=float), lb, ub)
        g2 = np.array(alt["g"], dtype=float)
        if float(np.max(np.abs(np.clip(x2 - g2, lb, ub) - x2))) == 0.0:
            continue
        xc2, _ = ref_cauchy_point(x2, g2, lb, ub, B)
        xc2 = np.clip(xc2, lb, ub)
        c2 = (np.asarray(fresh.W).T @ (xc2 - x2)) if fresh.use_factor else np.zeros(np.asarray(fresh.W).shape[1])
        free2 = (xc2 != lb) & (xc2 != ub)
        idx2, Z2, A2 = zmat(n, free2)
        xbar2 = subspace_minimization(x2, xc2, idx2, Z2, A2, c2, g2, lb, ub, mats)
        try:
            judge(x2, g2, lb, ub, fresh, xc2, xbar2, stats, tag=f"call #{k + 2} on the same matrices object, free set {idx2.tolist()} after {np.sort(np.asarray(idx)).tolist()}")
        except Discard:
            continue
        require(mats_equal(snap, mats_snapshot(mats)), "model-untouched", f"the matrices object was modified by call #{k + 2}")
        if stats is not None:
            stats.bump("repeated-calls-on-the-same-matrices-object")
            if set(idx2.tolist()) < set(np.asarray(idx).tolist()) and idx2.size:
                stats.bump("repeated-call-with-a-strictly-smaller-free-set")
        idx = idx2
    if stats is not None:
        nf = int(free.sum())
        nt = (alpha < 1.0 and nf > 0) or (0 < nf < n and npairs >= 1)
        stats.case(spec, nt, [f"free={'none' if nf == 0 else 'all' if nf == n else 'some'}", f"truncated={alpha < 1.0}", f"pairs={min(npairs, 3)}{'+' if npairs > 3 else ''}", "src=hyp", f"inert={bool(spec.get('inert'))}"])


def intercepted_body(pspec, stats):
    from vf.observe import intercept, run_min
    from vf.specs import build

    prob = build(pspec["problem"])
    with intercept(("subspace_minimization",)) as rec:
        run_min(prob, pspec["cfg"])
    for e in rec.get("subspace_minimization", []):
        if "out" not in e:
            # the routine itself raised on an input handed over by the solver
            if isinstance(e.get("exc"), Exception) and not isinstance(e["exc"], Discard):
                raise e["exc"]
            continue
        a = e["args"]
        x, xc, free_vars, c, g, lb, ub, mats = a[0], a[1], a[2], a[5], a[6], a[7], a[8], a[9]
        if not (np.all(x >= lb) and np.all(x <= ub) and np.all(xc >= lb) and np.all(xc <= ub)):
            stats.discard("infeasible x / xc handed to the routine (C02/C08)")
            continue
        try:
            alpha, free = judge(np.asarray(x, float), np.asarray(g, float), lb, ub, mats, np.asarray(xc, float), e["out"], stats, tag="intercepted")
        except Discard as d:
            stats.discard(d.why)
            continue
        nf = int(free.sum())
        npairs = mats.S.shape[1] if mats.use_factor else 0
        stats.case({"x": x.tolist(), "xc": xc.tolist(), "g": g.tolist(), "np": npairs}, (alpha < 1.0 and nf > 0) or (0 < nf < x.size and npairs >= 1),
                   ["src=intercepted", f"truncated={alpha < 1.0}", f"free={'none' if nf == 0 else 'all' if nf == x.size else 'some'}"],
                   sample={"from_run": pspec["problem"]["obj"]["family"], "n": int(x.size), "free": nf, "pairs": npairs, "alpha_ref": alpha})


def shard(ctx):
    ctx.hyp("generated", c08_case(), run_case, ctx.pick(20000, 400000))
    ctx.hyp("intercepted", c08_run_spec(), intercepted_body, ctx.pick(500, 6000))


def replay(spec):
    if "problem" in spec:
        from vf.core import Stats

        intercepted_body(spec, Stats())
    else:
        run_case(spec, None)
