"""C12 -- on unconstrained problems the iterates are those of reference Algorithm 778 (SciPy).

Differential oracle with detectors for the port's three documented deviations, run on the
reference trace; probe families aimed at the line-search constants; one-sided comparison of
optimal values on convex box problems."""

from __future__ import annotations

import numpy as np
from hypothesis import strategies as st

from vf.core import Discard, Violation, require
from vf.observe import run_min
from vf.specs import CONVEX_FAMILIES, build, grid, loggrid, problem_spec, sgrid, vec

ID = "C12"
LEVEL = "exploration"
RULE = (
    "(1) Hypothesis draws unconstrained problems (QP+quartic, QP+softplus, Rosenbrock n<=8, |g(x0)|>=1 by construction; also with the objective multiplied by 10^2..10^10 and with the finite-difference step option set although the gradient is callable) and probe families (anisotropic sphere started so that the first trial's "
    "decrease ratio is rho ~ 1e-3 or its slope ratio ~ 0.9, i.e. on the boundary of the sufficient-decrease / curvature tests), maxcor 1..8, 12 iterations, default line-search constants, the gradient returned as a fresh array or (1 in 4) in one reused work array; the evaluation "
    "points of minimize_lbfgsb and of scipy.optimize.minimize(method='L-BFGS-B') are compared index by index until the first documented deviation detected on SciPy's trace (trial step > 1 in "
    "iteration 0, an earlier trial lower than the accepted last one, |g0|<1) or the round-off regime (pg <= 1e-5*pg0, or the accumulated rounding drift between the two implementations has itself exceeded 1e-6). (2) convex box problems of C01 with gtol=1e-8: f_port - f_scipy <= 1e-8*(1+fmag). "
    "non-trivial = >=3 iterations compared with >=1 line search of >=2 trials and maxcor < iterations compared (memory wrapped), or a probe case; for (2): >=1 active bound at the solution; distinct = distinct spec"
)
ASSUMPTIONS = [
    "SciPy 1.18's L-BFGS-B is the reference implementation of Algorithm 778",
    "clause (2) is one-sided on purpose: SciPy itself stops early (factr test on an iteration that leaves f unchanged) in ~0.1% of problems; both results are feasible so f_ref >= f*",
]


def scipy_trace(prob, maxcor, maxiter, gtol, maxfun=15000, bounds=None):
    import scipy.optimize as so

    log, iters = [], []

    def fun(x):
        v = prob.obj.f(x)
        log.append((np.array(x, copy=True), v))
        return v

    def jac(x):
        return prob.obj.g(x)

    def cb(xk):
        iters.append((len(log), np.array(xk, copy=True)))

    res = so.minimize(fun, np.array(prob.x0, copy=True), jac=jac, method="L-BFGS-B", bounds=bounds, callback=cb,
                      options={"maxcor": maxcor, "maxiter": maxiter, "ftol": 0.0, "gtol": gtol, "maxls": 20, "maxfun": maxfun})
    return log, iters, res


def first_deviation(prob, log, iters):
    """Index of the first evaluation from which the port is *documented* to differ, found on SciPy's trace."""
    x0 = log[0][0]
    g0 = prob.obj.g(x0)
    if np.linalg.norm(g0) < 1.0:
        return 1, "short-gradient(|g0|<1)"
    start = 1
    for it, (end, xk) in enumerate(iters):
        trials = log[start:end]
        if it == 0 and trials:
            d = -g0
            nd = float(np.linalg.norm(d))
            for j, (xt, _) in enumerate(trials):
                if float(np.linalg.norm(xt - x0)) / nd > 1.0 + 1e-12:
                    return start + j, "first-iteration-step-cap"
        if len(trials) >= 2:
            vals = [v for _, v in trials]
            if min(vals[:-1]) < vals[-1]:
                # the port accepts the lowest trial: it agrees up to and including these trials, then moves on from another point
                return end, "lowest-trial-accepted"
        start = end
    return len(log), None


def check_unconstrained(spec, stats=None):
    prob = build(spec["problem"])
    m = spec["maxcor"]
    g0 = prob.obj.g(prob.x0)
    if not np.all(np.isfinite(g0)) or np.linalg.norm(g0) < 1.0:
        raise Discard("|g(x0)| < 1 (documented deviation 3 avoided by construction)")
    log, iters, res = scipy_trace(prob, m, 12, 1e-10)
    cfg = {"maxcor": m, "maxiter": 12, "maxfun": 15000, "maxls": 20, "ftol": 0.0, "gtol": 1e-10}
    if spec.get("eps") is not None:
        cfg["eps"] = spec["eps"]  # finite-difference step: documented to matter only when jac is None
    # how the user's gradient hands over its result (a fresh array per call, or one preallocated work array) is
    # invisible to Algorithm 778: the trajectory must be the same
    tr = run_min(prob, cfg, bounds=None if spec.get("bounds_none", True) else "default", jac_style=spec.get("jac_style", "fresh"))
    if tr.exc is not None:
        raise tr.exc
    cut, why = first_deviation(prob, log, iters)
    # round-off regime
    pg0 = float(np.max(np.abs(g0)))
    start = 1
    n_iter_cmp = 0
    multi_trial = False
    for it, (end, xk) in enumerate(iters):
        if end > cut:
            break
        if float(np.max(np.abs(prob.obj.g(xk)))) <= 1e-5 * pg0:
            cut = min(cut, end)
            why = why or "round-off-regime"
            break
        n_iter_cmp += 1
        if end - start >= 2:
            multi_trial = True
        start = end
    ncmp = min(cut, len(log), len(tr.fun_calls))
    worst = 0.0
    drift = 0.0
    for i in range(ncmp):
        xr = log[i][0]
        xp = tr.fun_calls[i][0]
        dev = float(np.max(np.abs(xp - xr) / np.maximum(1.0, np.abs(xr))))
        # "Up to rounding": two floating-point orders of the same arithmetic drift apart, and the drift is
        # amplified by the conditioning of the problem and by long extrapolated trial steps.  A defect shows as
        # a jump out of nowhere; drift shows as growth from an already visible deviation.  So the tolerance is
        # 1e-6, or 10^4 times the largest deviation seen so far (observed growth in one extrapolated trial step: x1045) if that is larger -- and once a deviation above
        # 1e-6 has been accepted as drift the comparison has left the regime in which it means anything and
        # stops there (counted).
        tol_i = max(1e-6, 1e4 * drift)
        if drift > 1e-6:
            if stats is not None:
                stats.bump("comparison-ended-by-accumulated-rounding-drift")
            ncmp = i
            why = why or "rounding-drift"
            break
        worst = max(worst, dev)
        drift = max(drift, dev)
        if dev > tol_i:
            it_of = sum(1 for e, _ in iters if e <= i)
            raise Violation("evaluation-points-coincide-with-reference",
                            f"evaluation #{i} (reference iteration {it_of + 1}) differs: rel dev {dev:.3e}; port {xp.tolist()} vs SciPy {xr.tolist()}; compared up to #{cut} ({why}); maxcor={m}")
    # if the port stopped evaluating before the cut although the reference went on (or vice versa) within the compared window
    if len(tr.fun_calls) < min(cut, len(log)) and tr.res["nit"] < 12 and tr.res["message"].startswith("CONVERGENCE: NORM") is False:
        raise Violation("evaluation-points-coincide-with-reference", f"port stopped after {len(tr.fun_calls)} evaluations ({tr.res['message']}) while the reference made {len(log)} (cut {cut}, {why})")
    if stats is not None:
        stats.maxi("max_rel_dev_on_compared_evaluations", worst)
        probe = spec["problem"]["obj"]["family"] == "sphere_probe"
        stats.case(spec, (n_iter_cmp >= 3 and multi_trial and m < n_iter_cmp) or (probe and ncmp >= 3),
                   [f"family={spec['problem']['obj']['family']}", f"cut={why or 'none'}", f"iters_compared={'0-2' if n_iter_cmp < 3 else '3-7' if n_iter_cmp < 8 else '8-12'}", f"multi_trial={multi_trial}", f"jac_returns={spec.get('jac_style', 'fresh')}"],
                   sample={"family": spec["problem"]["obj"]["family"], "n": prob.n, "maxcor": m, "evaluations_compared": ncmp, "iterations_compared": n_iter_cmp, "cut_reason": why,
                           "probe": spec.get("probe")})


@st.composite
def unconstrained_strategy(draw):
    kind = draw(st.sampled_from(["qp_quartic", "qp_softplus", "rosenbrock", "probe-armijo", "probe-curvature", "boxqp"]))
    m = draw(st.integers(1, 8))
    if kind.startswith("probe"):
        n = draw(st.integers(1, 6))
        s0 = draw(grid(2.5, 20.0, 35))
        svec = [s0 * (1.0 + draw(sgrid(0.02, 10))) for _ in range(n)]
        a = draw(vec(sgrid(2.0, 20), n))
        u = np.array(draw(vec(sgrid(1.0, 20), n)))
        if not np.any(u):
            u[0] = 1.0
        u = u / np.linalg.norm(u)
        if kind == "probe-armijo":
            # rho = 1e-3 exactly (grid index 40) puts the trial point exactly ON the sufficient-decrease boundary: in exact
            # arithmetic a tie, in floating point decided by the summation order of a dot product (Fortran ddot vs numpy) --
            # both decisions are correct, so the exact tie is not generated; its neighbours (0.06 decades away) are
            k = draw(st.integers(0, 79))
            rho = 10.0 ** (-4.0 + 2.0 * (k if k < 40 else k + 1) / 80)
            r = 1.0 / (2.0 * (1.0 - rho))
            probe = {"kind": "armijo", "rho": rho}
        else:
            # r = 10 exactly makes the slope ratio at the first trial exactly 0.9 = gtol (same remark): excluded by construction
            k = draw(st.integers(1, 40)) * draw(st.sampled_from([1, -1]))
            r = 10.0 * (1.0 + 0.02 * k / 40)
            probe = {"kind": "curvature", "r": r}
        x0 = (np.array(a) + r * u).tolist()
        p = {"obj": {"family": "sphere_probe", "n": n, "s": svec, "a": a}, "lb": [None] * n, "ub": [None] * n, "x0": x0}
        return {"kind": "unc", "problem": p, "maxcor": m, "probe": probe, "jac_style": draw(st.sampled_from(["fresh", "fresh", "fresh", "buffer"]))}
    p = draw(problem_spec(families=(kind,), n_min=2 if kind == "rosenbrock" else 1, n_max=8, box_mode="free", kappa_max_exp=3.0))
    out = {"kind": "unc", "problem": p, "maxcor": m}
    k = draw(st.sampled_from([0, 0, 0, 2, 5, 8, 10]))
    if k:
        p["units"] = {"xs": 1.0, "fs": 10.0 ** k}  # the same problem with f in other units: curvature up to 1e13
    out["eps"] = draw(st.sampled_from([None, None, 1e-8, 1e-2]))
    out["jac_style"] = draw(st.sampled_from(["fresh", "fresh", "fresh", "buffer"]))
    return out


# ------------------------------------------------------------------ (2) convex box problems
def check_box(spec, stats=None):
    prob = build(spec["problem"])
    m = spec["maxcor"]
    bnds = [(None if not np.isfinite(l) else float(l), None if not np.isfinite(u) else float(u)) for l, u in zip(prob.lb, prob.ub)]
    log, iters, res = scipy_trace(prob, m, 1500, 1e-8, maxfun=6000, bounds=bnds)
    cfg = {"maxcor": m, "maxiter": 1500, "maxfun": 6000, "maxls": 20, "ftol": 0.0, "gtol": 1e-8}
    tr = run_min(prob, cfg)
    if tr.exc is not None:
        raise tr.exc
    f_port = float(prob.obj.f(tr.res["x"]))
    f_ref = float(prob.obj.f(np.clip(res.x, prob.lb, prob.ub)))
    tol = 1e-8 * (1.0 + prob.obj.fmag(tr.res["x"]))
    if stats is not None:
        stats.maxi("max_value_gap_over_tol", (f_port - f_ref) / tol)
        if f_ref > f_port + tol:
            stats.bump("reference_short_of_optimum")
        act = prob.n_on_bound(tr.res["x"])
        stats.case(spec, act >= 1 and tr.res["nit"] >= 1, ["kind=box-value", f"active={min(act, 2)}", f"msg={tr.res['message'][:24]}"],
                   sample={"family": spec["problem"]["obj"]["family"], "n": prob.n, "f_port": f_port, "f_scipy": f_ref, "active_bounds": act})
    require(f_port - f_ref <= tol, "same-optimal-value-as-reference",
            f"f_port={f_port!r} ({tr.res['message']}, nit={tr.res['nit']}) exceeds f_scipy={f_ref!r} ({res.message}) by {f_port - f_ref:.3e} > {tol:.1e}")


@st.composite
def box_strategy(draw):
    p = draw(problem_spec(families=CONVEX_FAMILIES, n_max=12, kappa_max_exp=4.0))
    return {"kind": "box", "problem": p, "maxcor": draw(st.integers(1, 10))}


def shard(ctx):
    ctx.hyp("unconstrained", unconstrained_strategy(), check_unconstrained, ctx.pick(3000, 60000))
    ctx.hyp("box-value", box_strategy(), check_box, ctx.pick(1200, 20000))


def replay(spec):
    if spec.get("kind") == "box":
        check_box(spec, None)
    else:
        check_unconstrained(spec, None)
