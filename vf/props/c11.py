"""C11 -- line-search steps are feasible, within budget and strictly downhill."""

from __future__ import annotations

import numpy as np
from hypothesis import strategies as st

from vf.core import Discard, Violation, require
from vf.observe import Trace, make_closures
from vf.specs import ALL_FAMILIES, build, loggrid, problem_spec

ID = "C11"
LEVEL = "exploration"
RULE = (
    "Hypothesis draws a problem (all families incl. oscillating), a feasible x0 on faces/vertices/interior, a direction d = P(x0 - tau*g(x0)) - x0 with tau log-uniform in [1e-3,10], "
    "iteration index in {0,1,7}, evaluation cap 1..20, line-search tolerances (defaults or drawn admissible values) and max_steplength; lbfgsb.linesearch.line_search is called with a real "
    "ScalarFunction. Plus line searches intercepted in real runs. non-trivial = more than one trial, or the search ended on its cap / returned None, or the returned step is the feasible maximum; "
    "distinct = distinct input"
)
ASSUMPTIONS = ["the direction is a feasible descent direction by construction (projected gradient step), as the quantifier says",
               "the returned step is judged through the point clip(x0 + alpha*d) that the routine itself evaluates (projection of a one-ulp excursion)"]
EPS = 2.220446049250313e-16


def alpha_max(x0, d, lb, ub, user_cap, it):
    a = np.inf
    for i in range(x0.size):
        if d[i] > 0 and np.isfinite(ub[i]):
            a = min(a, (ub[i] - x0[i]) / d[i])
        elif d[i] < 0 and np.isfinite(lb[i]):
            a = min(a, (lb[i] - x0[i]) / d[i])
    # "max feasible step" of the property = the largest step that keeps the box.  The user's
    # max_steplength option is not part of it (and the port documents that it replaces it by
    # 1.0 in the first iteration), so it is deliberately not folded in here.
    return a


def check(spec, stats=None):
    from lbfgsb.linesearch import line_search
    from lbfgsb.scalar_function import prepare_scalar_function

    prob = build(spec["problem"])
    lb, ub, x0 = prob.lb, prob.ub, prob.x0.copy()
    g_at = prob.obj.g(x0)
    if not np.all(np.isfinite(g_at)):
        raise Discard("harness gradient non-finite")
    d = np.clip(x0 - spec["tau"] * g_at, lb, ub) - x0
    if not np.any(d != 0) or not (g_at @ d < 0):
        raise Discard("no descent direction (stationary start)")
    tr = Trace()
    fun, jac, _ = make_closures(prob, tr)
    sf = prepare_scalar_function(fun, x0, jac=jac, bounds=(lb, ub))
    f0 = sf.fun(x0)
    g0 = sf.grad(x0)
    nf0 = tr.nf
    is_boxed = bool(np.all(np.isfinite(lb)) and np.all(np.isfinite(ub)))
    cap = spec["max_iter"]
    x_in, d_in = x0.copy(), d.copy()
    alpha = line_search(x0, f0, g0, d, lb, ub, spec["iter"], spec["max_steplength"], is_boxed, sf,
                        spec["ftol"], spec["gtol"], spec["xtol"], cap, -1, None)
    require(np.array_equal(x0, x_in) and np.array_equal(d, d_in), "inputs-untouched", "x0 or d modified in place")
    trials = tr.fun_calls[nf0:]
    for xt, _ in trials:
        if not (np.all(xt >= lb) and np.all(xt <= ub)):
            i = int(np.nonzero((xt < lb) | (xt > ub))[0][0])
            raise Violation("trial-points-in-box", f"trial point component {i} = {xt[i]!r} outside [{lb[i]!r}, {ub[i]!r}]")
    require(len(trials) <= cap, "evaluation-cap", f"{len(trials)} objective evaluations with cap {cap}")
    amax = alpha_max(x0, d, lb, ub, spec["max_steplength"], spec["iter"])
    at_max = False
    if alpha is not None:
        require(np.isfinite(alpha) and alpha > 0, "step-positive", f"alpha={alpha!r}")
        require(alpha <= amax * (1.0 + 4 * EPS), "step-within-feasible-maximum", f"alpha={alpha!r} > max feasible step {amax!r}")
        p = np.clip(x0 + alpha * d, lb, ub)
        fp = float(prob.obj.f(p))
        fx = float(prob.obj.f(x0))
        require(fp < fx, "strictly-downhill", f"f(x0+alpha*d)={fp!r} not below f(x0)={fx!r} (alpha={alpha!r}, {len(trials)} trials, cap {cap})")
        require(any(np.array_equal(p, xt) for xt, _ in trials), "returned-step-was-evaluated", f"alpha={alpha!r} is not one of the {len(trials)} evaluated trials")
        at_max = alpha >= amax * (1.0 - 4 * EPS)
    if stats is not None:
        nt = len(trials) > 1 or alpha is None or len(trials) >= cap or at_max
        stats.case(spec, nt, [f"trials={'1' if len(trials) <= 1 else '2-3' if len(trials) <= 3 else '4+'}", f"ret={'None' if alpha is None else 'step'}",
                              f"iter={spec['iter']}", f"at_max={at_max}", f"boxed={is_boxed}", f"capped={len(trials) >= cap}"])


@st.composite
def strategy(draw):
    p = draw(problem_spec(families=ALL_FAMILIES, n_max=10, allow_degenerate=True))
    defaults = draw(st.booleans())
    return {
        "problem": p,
        "tau": draw(loggrid(-3, 1, 40)),
        "iter": draw(st.sampled_from([0, 1, 7])),
        "max_iter": draw(st.sampled_from([1, 2, 3, 4, 5, 8, 12, 20])),
        "ftol": 1e-3 if defaults else draw(st.sampled_from([1e-4, 1e-3, 1e-2])),
        "gtol": 0.9 if defaults else draw(st.sampled_from([0.1, 0.5, 0.9])),
        "xtol": 0.1 if defaults else draw(st.sampled_from([0.1, 1e-3])),
        "max_steplength": draw(st.sampled_from([1e8, 1e8, 10.0, 1.0, 0.5])),
    }


# ---- line searches intercepted in real runs -------------------------------------------


def intercepted(rspec, stats):
    import lbfgsb.main as M

    from vf.runspec import execute

    prob = build(rspec["problem"])
    orig = getattr(M, "line_search", None)
    if orig is None:
        stats.bump("line_search-not-interceptable")
        return
    holder = {}
    bad = []

    def wrapper(x0, f0, g0, d, lb, ub, it, cap_user, is_boxed, sf, ftol, gtol, xtol, max_iter, *rest, **kw):
        tr = holder["tr"]
        n0 = tr.nf
        x_c, d_c = np.array(x0, copy=True), np.array(d, copy=True)
        a = orig(x0, f0, g0, d, lb, ub, it, cap_user, is_boxed, sf, ftol, gtol, xtol, max_iter, *rest, **kw)
        trials = [xt for xt, _ in tr.fun_calls[n0:]]
        bad.append((x_c, d_c, it, cap_user, max_iter, a, trials))
        return a

    M.line_search = wrapper
    try:
        from vf.observe import Trace as _T

        tr = _T()
        holder["tr"] = tr
        execute(rspec, prob=prob, trace=tr)
    finally:
        M.line_search = orig
    if tr.exc is not None:
        raise tr.exc
    lb, ub = prob.lb, prob.ub
    for (x_c, d_c, it, cap_user, max_iter, a, trials) in bad:
        if not (np.all(x_c >= lb) and np.all(x_c <= ub)):
            stats.discard("infeasible start handed to line_search (C02)")
            continue
        require(len(trials) <= max(max_iter, 0), "evaluation-cap", f"[in-run] {len(trials)} evaluations with cap {max_iter}")
        for xt in trials:
            require(bool(np.all(xt >= lb) and np.all(xt <= ub)), "trial-points-in-box", "[in-run] trial point outside the box")
        if a is not None:
            amax = alpha_max(x_c, d_c, lb, ub, cap_user, it)
            require(0 < a <= amax * (1 + 4 * EPS), "step-within-feasible-maximum", f"[in-run] alpha={a!r} amax={amax!r}")
            p = np.clip(x_c + a * d_c, lb, ub)
            require(float(prob.obj.f(p)) < float(prob.obj.f(x_c)), "strictly-downhill", f"[in-run] step {a!r} not downhill")
        stats.case({"x": x_c.tolist(), "d": d_c.tolist(), "it": it}, len(trials) > 1 or a is None, ["src=in-run", f"ret={'None' if a is None else 'step'}"],
                   sample={"from_run": rspec["problem"]["obj"]["family"], "iter": it, "trials": len(trials), "alpha": a})


def run_strategy():
    from vf.runspec import run_spec

    return run_spec(families=ALL_FAMILIES, n_max=8, jac_modes=("callable",), maxiter=(1, 20), maxfun=(2, 100), small_ls=True,
                    ftols=(0.0,), gtols=(1e-8,), allow_degenerate=True)


def shard(ctx):
    ctx.hyp("synthetic", strategy(), check, ctx.pick(20000, 500000))
    ctx.hyp("in-run", run_strategy(), intercepted, ctx.pick(1500, 30000))


def replay(spec):
    if "tau" in spec:
        check(spec, None)
    else:
        from vf.core import Stats

        intercepted(spec, Stats())
