"""C04 -- the termination report is truthful and the run budgets are respected.

Oracle: implications message => state, budget inequalities, call counts; over the
configuration lattice and over histories of restarts."""

from __future__ import annotations

import numpy as np
from hypothesis import strategies as st

from vf.core import Discard, Violation, require
from vf.observe import (DOCUMENTED_MESSAGES, MSG_ABNORMAL, MSG_CALLBACK, MSG_EVAL, MSG_FTOL, MSG_ITER, MSG_PGTOL, MSG_TARGET, run_min)
from vf.runspec import execute, resolve_ftarget, run_spec
from vf.specs import ALL_FAMILIES, build

ID = "C04"
LEVEL = "exploration"
RULE = (
    "Hypothesis draws a run over all families/boxes/starts x maxiter 0..40 x maxfun 1..200 x maxls x ftol x gtol (float or callable) x ftarget (None, float or callable, placed above/at/below reachable values) "
    "x stopping callback x gradient scaler x {callable, None, 2-point, 3-point}, followed by a history of 0..3 restarts from the previous result with maxiter below/equal/above the checkpoint's nit, "
    "maxfun below/above its nfev and a new maxcor; dedicated generators: (i) evaluation budgets that bind inside a line search (fresh runs with maxfun 3..16, restarts with maxfun = n0+1..4, hard line-search families), (ii) a target placed exactly on, one ulp below or one ulp above a value the run attains (f(x0) or the value at iterate k of a reference run), (iii) the same for gtol: one ulp below / at / above a projected-gradient norm the run attains, and gtol = 0 (vertex solutions have a projected gradient of exactly 0), (iv) runs whose objective is redefined on the fly by an update function (C13's objective switches), half of them aimed at the update invocation that follows the iterate at which the *old* objective met the tolerance: the report must be true of the returned (x, jac). non-trivial = at least two stop criteria were within reach in the same run (e.g. small maxfun and a reachable target, a stopping callback and a small maxiter) "
    "or the history contains a restart; distinct = distinct history spec; a fifth of the problems are also translated far from the origin (x -> x+T, |T| = 1e2..1e6: bounds and iterates of large magnitude compared with the box)"
)
ASSUMPTIONS = [
    "the documented termination reasons are the seven strings of the statement; START / RESTART_FROM_LNSRCH are internal placeholders",
    "restart histories do not re-supply a gradient scaler (known finding R12, judged under C06)",
]


def judge(tr, prob, cfg, *, n0, nit0, gtol, ftarget_val, scale, cb_schedule_hit, mode, tag):
    r = tr.res
    msg = r["message"]
    require(msg in DOCUMENTED_MESSAGES, f"documented-message[{tag}]",
            f"message {msg!r} (nit={r['nit']}, nfev={r['nfev']}, maxiter={cfg['maxiter']}, maxfun={cfg['maxfun']}, nit0={nit0}, n0={n0}, jac={mode!r})")
    pg = prob.pg(r["x"], r["jac"])
    if msg == MSG_PGTOL:
        require(pg <= gtol, f"pgtol-message-true[{tag}]", f"projected gradient of (x, jac) = {pg!r} > gtol = {gtol!r}")
    elif msg == MSG_TARGET:
        require(ftarget_val is not None and r["fun"] / scale <= ftarget_val, f"target-message-true[{tag}]",
                f"fun/s = {r['fun'] / scale!r} > ftarget = {ftarget_val!r}")
    elif msg == MSG_ITER:
        require(r["nit"] >= cfg["maxiter"], f"iteration-message-true[{tag}]", f"nit = {r['nit']} < maxiter = {cfg['maxiter']}")
    elif msg == MSG_EVAL:
        require(r["nfev"] >= cfg["maxfun"], f"evaluation-message-true[{tag}]", f"nfev = {r['nfev']} < maxfun = {cfg['maxfun']}")
    elif msg == MSG_CALLBACK:
        require(any(c["ret"] for c in tr.cb), f"callback-message-true[{tag}]", "no callback invocation returned True")
    elif msg == MSG_FTOL:
        require(r["nfev"] > n0 or len(tr.fun_calls) > (1 if nit0 == 0 and n0 == 1 else 0), f"ftol-message-needs-an-iteration[{tag}]",
                f"FTOL message but no evaluation after the start (nfev={r['nfev']}, n0={n0})")
    require(r["success"] == (msg != MSG_ABNORMAL), f"success-iff-not-abnormal[{tag}]", f"success={r['success']} with message {msg!r}")
    # callback returned True after iteration k => the run ends with nit == k
    for c in tr.cb:
        if c["ret"]:
            require(r["nit"] == c["snap"]["nit"], f"callback-true-terminates[{tag}]",
                    f"callback returned True at state.nit={c['snap']['nit']} but the run went on to nit={r['nit']}")
            break
    require(r["nit"] <= max(cfg["maxiter"], nit0), f"iteration-budget[{tag}]", f"nit={r['nit']} > max(maxiter={cfg['maxiter']}, nit0={nit0})")
    if mode == "callable":
        require(r["nfev"] <= max(cfg["maxfun"], n0) + 1, f"evaluation-budget[{tag}]",
                f"nfev={r['nfev']} > max(maxfun={cfg['maxfun']}, n0={n0}) + 1")
    return msg


def check(spec, stats=None):
    rspec = spec["run"]
    prob = build(rspec["problem"])
    mode = rspec["jac"]
    tr = execute(rspec, prob=prob)
    if tr.exc is not None:
        raise tr.exc
    cfg = dict(rspec["cfg"])
    _, ftv = resolve_ftarget(rspec, prob)
    scale = 1.0
    if "scaler" in rspec and tr.scaler_calls:
        sc = rspec["scaler"]
        if sc == "unit":
            import lbfgsb

            c0 = tr.scaler_calls[0]
            scale = float(lbfgsb.get_gradient_projection_unit_scaling(c0["x"], c0["g"], c0["lb"], c0["ub"]))
        else:
            scale = float(sc)
    if not np.isfinite(scale) or scale <= 0:
        raise Discard("scaler value not positive finite")
    if rspec.get("ftarget", {}).get("kind") == "callable":
        require(tr.ftarget_calls == 1, "stop-callables-invoked-once", f"callable ftarget invoked {tr.ftarget_calls} times")
    if rspec.get("gtol_callable"):
        require(tr.gtol_calls == 1, "stop-callables-invoked-once", f"callable gtol invoked {tr.gtol_calls} times")
    msg = judge(tr, prob, cfg, n0=1, nit0=0, gtol=cfg["gtol"], ftarget_val=ftv, scale=scale, cb_schedule_hit=None, mode=mode, tag="fresh")
    msgs = [msg]
    armed = 0
    armed += 1 if cfg["maxfun"] <= 30 else 0
    armed += 1 if cfg["maxiter"] <= 5 else 0
    armed += 1 if ftv is not None else 0
    armed += 1 if isinstance(rspec.get("callback"), int) else 0
    armed += 1 if cfg["ftol"] >= 1e-5 else 0
    armed += 1 if cfg["gtol"] >= 1e-3 else 0
    # ---- history of restarts (no scaler: R12)
    prev = tr
    nrest = 0
    if "scaler" not in rspec and mode == "callable":
        for rs in spec.get("restarts", []):
            ck = prev.result
            c2 = dict(cfg)
            c2["maxiter"] = max(0, prev.res["nit"] + rs["dit"])
            c2["maxfun"] = max(1, prev.res["nfev"] + rs["dfun"])
            if rs.get("maxcor"):
                c2["maxcor"] = rs["maxcor"]
            ft = None
            ftv2 = None
            if rs.get("ftarget_rel") is not None:
                ftv2 = float(prev.res["fun"] - rs["ftarget_rel"] * (1.0 + abs(prev.res["fun"])))
                ft = ftv2
            nxt = run_min(prob, c2, checkpoint=ck, x0=np.array(ck.x, copy=True), ftarget=ft,
                          callback=("passive" if rs.get("cb") else None))
            if nxt.exc is not None:
                raise Violation("restart-accepted", f"restart #{nrest + 1} raised {type(nxt.exc).__name__}: {nxt.exc}")
            m2 = judge(nxt, prob, c2, n0=prev.res["nfev"], nit0=prev.res["nit"], gtol=c2["gtol"], ftarget_val=ftv2, scale=1.0,
                       cb_schedule_hit=None, mode=mode, tag="restart")
            msgs.append(m2)
            prev = nxt
            cfg = c2
            nrest += 1
    if stats is not None:
        labs = [f"msg={m[:30]}" for m in msgs[:1]] + [f"restarts={nrest}", f"jac={mode}", f"armed={min(armed, 3)}"]
        if nrest:
            labs += [f"restart-msg={m[:30]}" for m in msgs[1:]]
        stats.case(spec, armed >= 2 or nrest >= 1, labs,
                   sample={"family": rspec["problem"]["obj"]["family"], "cfg": rspec["cfg"], "jac": mode, "ftarget": rspec.get("ftarget"), "callback": rspec.get("callback"),
                           "restarts": spec.get("restarts", [])[:nrest], "messages": msgs})


@st.composite
def strategy(draw):
    r = draw(run_spec(families=ALL_FAMILIES, n_max=8, jac_modes=("callable", "callable", "callable", None, "2-point", "3-point"),
                      maxiter=(0, 40), maxfun=(1, 200), units=True, shift=True, ftols=(0.0, 1e-12, 1e-5, 1e-2, 0.3), gtols=(1e-8, 1e-5, 1e-3, 1e-2, 1e-1),
                      with_scaler=True, with_ftarget=True, with_callback_stop=True, gtol_callable=True, extras=True))
    nr = draw(st.sampled_from([0, 1, 2, 3]))
    restarts = []
    for _ in range(nr):
        restarts.append({
            "dit": draw(st.sampled_from([-3, -1, 0, 1, 2, 5, 20])),
            "dfun": draw(st.sampled_from([-5, 0, 1, 3, 10, 100])),
            "maxcor": draw(st.sampled_from([None, None, 1, 3, 7])),
            "ftarget_rel": draw(st.sampled_from([None, None, -0.5, 0.0, 0.3])),
            "cb": draw(st.booleans()),
        })
    return {"run": r, "restarts": restarts}


# ---- dedicated generator: evaluation budget that binds inside the first line search of a restart
def check_restart_budget(spec, stats=None):
    rspec = spec["run"]
    prob = build(rspec["problem"])
    cfg = dict(rspec["cfg"])
    first = execute(rspec, prob=prob)
    if first.exc is not None:
        raise first.exc
    judge(first, prob, cfg, n0=1, nit0=0, gtol=cfg["gtol"], ftarget_val=None, scale=1.0, cb_schedule_hit=None, mode="callable", tag="fresh")
    n0, nit0 = first.res["nfev"], first.res["nit"]
    c2 = dict(cfg)
    c2["maxfun"] = n0 + spec["delta"]
    c2["maxiter"] = nit0 + spec["more_iter"]
    c2["maxls"] = spec["maxls2"]
    nxt = run_min(prob, c2, checkpoint=first.result, x0=np.array(first.result.x, copy=True), callback="passive")
    if nxt.exc is not None:
        raise Violation("restart-accepted", f"restart raised {type(nxt.exc).__name__}: {nxt.exc}")
    judge(nxt, prob, c2, n0=n0, nit0=nit0, gtol=c2["gtol"], ftarget_val=None, scale=1.0, cb_schedule_hit=None, mode="callable", tag="restart")
    if stats is not None:
        binding = nxt.nf >= spec["delta"]
        stats.case(spec, binding and nit0 >= 1, ["kind=restart-budget", f"budget-binding={binding}", f"restart-msg={nxt.res['message'][:30]}", f"calls-in-restart={min(nxt.nf, 5)}"],
                   sample={"family": rspec["problem"]["obj"].get("bench", rspec["problem"]["obj"]["family"]), "checkpoint_nfev": n0, "maxfun_at_restart": c2["maxfun"],
                           "objective_calls_in_restart": nxt.nf, "nfev": nxt.res["nfev"], "message": nxt.res["message"]})


@st.composite
def restart_budget_strategy(draw):
    r = draw(run_spec(families=("rosenbrock", "rosenbrock", "badscale", "sines", "bench", "qp_quartic"), n_max=6, jac_modes=("callable",), maxiter=(1, 10), maxfun=(400, 400),
                      ftols=(0.0,), gtols=(1e-10,), narrow=draw(st.booleans())))
    if draw(st.booleans()):
        # a tight budget already in the fresh run: the evaluation budget must bind inside a late line search too
        r["cfg"]["maxfun"] = draw(st.integers(3, 16))
        r["cfg"]["maxiter"] = 30
    return {"run": r, "delta": draw(st.sampled_from([1, 1, 2, 2, 3, 4])), "more_iter": draw(st.sampled_from([1, 2, 5, 30])), "maxls2": draw(st.sampled_from([20, 20, 10, 5]))}


# ---- dedicated generator: a target that sits exactly on / one ulp around a value the run attains
def check_target_boundary(spec, stats=None):
    rspec = spec["run"]
    prob = build(rspec["problem"])
    cfg = dict(rspec["cfg"])
    ref = execute(rspec, prob=prob, callback="passive")
    if ref.exc is not None:
        raise ref.exc
    vals = [float(prob.obj.f(np.clip(prob.x0, prob.lb, prob.ub)))] + [c["snap"]["fun"] for c in ref.cb]
    k = min(spec["k"], len(vals) - 1)
    fk = vals[k]
    if not np.isfinite(fk):
        raise Discard("non-finite value")
    ft = {"below": float(np.nextafter(fk, -np.inf)), "at": fk, "above": float(np.nextafter(fk, np.inf))}[spec["where"]]
    tr = run_min(prob, cfg, ftarget=(("callable", ft) if spec["callable"] else ft), callback="passive")
    if tr.exc is not None:
        raise tr.exc
    judge(tr, prob, cfg, n0=1, nit0=0, gtol=cfg["gtol"], ftarget_val=ft, scale=1.0, cb_schedule_hit=None, mode="callable", tag="target-boundary")
    # a target that iterate k does not meet (one ulp below its value) must not stop the run at iterate k
    if spec["where"] == "below" and tr.res["message"] == MSG_TARGET:
        require(tr.res["fun"] <= ft, "target-message-true[target-boundary]", f"fun={tr.res['fun']!r} > ftarget={ft!r}")
    if stats is not None:
        stats.case(spec, True, ["kind=target-boundary", f"where={spec['where']}", f"msg={tr.res['message'][:30]}", f"k={min(k, 3)}"],
                   sample={"family": rspec["problem"]["obj"]["family"], "k": k, "where": spec["where"], "f_k": fk, "ftarget": ft, "message": tr.res["message"], "fun": tr.res["fun"]})


# ---- dedicated generator: a tolerance that sits exactly on / one ulp around a projected-gradient norm the run attains
# (incl. gtol = 0 on problems whose solution is a vertex of the box, where the projected gradient is exactly 0)
def check_gtol_boundary(spec, stats=None):
    rspec = spec["run"]
    prob = build(rspec["problem"])
    cfg = dict(rspec["cfg"])
    ref = execute(rspec, prob=prob, callback="passive")
    if ref.exc is not None:
        raise ref.exc
    x0c = np.clip(prob.x0, prob.lb, prob.ub)
    pgs = [prob.pg(x0c, np.asarray(prob.obj.g(x0c), dtype=float))] + [prob.pg(c["snap"]["x"], c["snap"]["jac"]) for c in ref.cb]
    k = min(spec["k"], len(pgs) - 1)
    pk = float(pgs[k])
    if not np.isfinite(pk):
        raise Discard("non-finite projected gradient")
    if spec["where"] == "zero":
        gt = 0.0
    else:
        gt = {"below": float(np.nextafter(pk, -np.inf)), "at": pk, "above": float(np.nextafter(pk, np.inf))}[spec["where"]]
    if gt < 0:
        gt = 0.0
    cfg["gtol"] = gt
    tr = run_min(prob, cfg, callback="passive", gtol_callable=spec["callable"])
    if tr.exc is not None:
        raise tr.exc
    msg = judge(tr, prob, cfg, n0=1, nit0=0, gtol=gt, ftarget_val=None, scale=1.0, cb_schedule_hit=None, mode="callable", tag="gtol-boundary")
    if stats is not None:
        hit = msg == MSG_PGTOL
        stats.case(spec, True, ["kind=gtol-boundary", f"where={spec['where']}", f"msg={msg[:30]}", f"k={min(k, 3)}", f"pg_exactly_gtol={hit and prob.pg(tr.res['x'], tr.res['jac']) == gt}"],
                   sample={"family": rspec["problem"]["obj"]["family"], "k": k, "where": spec["where"], "pg_k": pk, "gtol": gt, "message": msg, "nit": tr.res["nit"]})


@st.composite
def gtol_boundary_strategy(draw):
    r = draw(run_spec(families=ALL_FAMILIES, n_max=6, jac_modes=("callable",), maxiter=(0, 12), maxfun=(50, 200), ftols=(0.0,), gtols=(1e-10,),
                      box_mode=draw(st.sampled_from([None, "boxed", "boxed"])), narrow=draw(st.booleans())))
    return {"kind": "gtol", "run": r, "k": draw(st.integers(0, 8)), "where": draw(st.sampled_from(["below", "at", "at", "above", "zero"])), "callable": draw(st.booleans())}


# ---- dedicated generator: runs whose objective is redefined on the fly (update_fun_def): the report must be true of the
# returned (x, jac), i.e. of the gradient *after* the redefinition -- also when the redefinition happens at the very
# iterate at which the old objective met the tolerance
def check_update_fun(spec, stats=None):
    from vf.props.c13 import make_switch_update, numerical_breakdown_gate

    rspec = spec["run"]
    prob = build(rspec["problem"])
    cfg = dict(rspec["cfg"])
    sw = dict(spec["switch"])
    plain = run_min(prob, cfg)
    if plain.exc is not None:
        raise plain.exc
    aimed = False
    if spec["aim"] and plain.res["message"] == MSG_PGTOL and plain.res["nit"] >= 1:
        sw["at"] = plain.res["nit"]  # the update invocation that follows the iterate at which the old objective converged
        aimed = True
    info = {}
    upd, objB = make_switch_update(prob, sw, info)
    tr = run_min(prob, cfg, callback="passive", update_fun_def=upd)
    if tr.exc is not None:
        numerical_breakdown_gate(tr, stats)
        raise tr.exc
    msg = judge(tr, prob, cfg, n0=1, nit0=0, gtol=cfg["gtol"], ftarget_val=None, scale=1.0, cb_schedule_hit=None, mode="callable", tag="update-fun")
    if stats is not None:
        reached = len(tr.upd_calls) > sw["at"]
        stats.case(spec, reached, ["kind=update-fun", f"switch_reached={reached}", f"aimed_at_convergence_of_old_objective={aimed}", f"msg={msg[:30]}"],
                   sample={"family": rspec["problem"]["obj"]["family"], "switch_at_invocation": sw["at"], "aimed": aimed, "message": msg, "nit": tr.res["nit"], "gtol": cfg["gtol"]})


@st.composite
def update_fun_strategy(draw):
    from vf.props.c13 import switch_strategy

    sp = draw(switch_strategy())
    sp["run"]["cfg"]["gtol"] = draw(st.sampled_from([1e-1, 1e-2, 1e-3, 1e-5, 1e-8]))
    sp["run"]["cfg"]["ftol"] = draw(st.sampled_from([0.0, 0.0, 1e-12, 1e-5]))
    sp["run"]["cfg"]["maxiter"] = draw(st.integers(2, 40))
    sp["kind"] = "update-fun"
    sp["aim"] = draw(st.booleans())
    return sp


@st.composite
def target_boundary_strategy(draw):
    r = draw(run_spec(families=ALL_FAMILIES, n_max=6, jac_modes=("callable",), maxiter=(0, 12), maxfun=(50, 200), ftols=(0.0,), gtols=(1e-10,)))
    return {"run": r, "k": draw(st.integers(0, 8)), "where": draw(st.sampled_from(["below", "below", "at", "above"])), "callable": draw(st.booleans())}


def shard(ctx):
    ctx.hyp("histories", strategy(), check, ctx.pick(6000, 150000))
    ctx.hyp("target-boundary", target_boundary_strategy(), check_target_boundary, ctx.pick(2500, 40000))
    ctx.hyp("gtol-boundary", gtol_boundary_strategy(), check_gtol_boundary, ctx.pick(2500, 40000))
    ctx.hyp("update-fun", update_fun_strategy(), check_update_fun, ctx.pick(2500, 40000))
    ctx.hyp("restart-budget", restart_budget_strategy(), check_restart_budget, ctx.pick(4000, 60000))


def replay(spec):
    if spec.get("kind") == "update-fun":
        check_update_fun(spec, None)
    elif spec.get("kind") == "gtol":
        check_gtol_boundary(spec, None)
    elif "where" in spec:
        check_target_boundary(spec, None)
    elif "delta" in spec:
        check_restart_budget(spec, None)
    else:
        check(spec, None)
