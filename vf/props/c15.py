"""C15 -- the function wrapper never serves a stale value and counts every evaluation once.

Exhaustive enumeration of bounded request histories + a stateful machine for longer ones."""

from __future__ import annotations

import itertools

import numpy as np
from hypothesis import strategies as st
from hypothesis.stateful import RuleBasedStateMachine, initialize, rule

from vf.observe import InjectedFault
from vf.core import Discard, Violation, require
from vf.specs import grid, loggrid, sgrid, vec

ID = "C15"
LEVEL = "exploration"
RULE = (
    "(i) EXHAUSTIVE histories over the 9-letter alphabet {fun, grad, fun_and_grad} x {P0, P1, P2} of length <= L for each gradient mode (quick: L=4 for callable/2-point/3-point/cs; thorough: L=6 callable "
    "and 2-point, L=5 3-point and cs), the wrapper built by prepare_scalar_function; (ii) RuleBasedStateMachine histories of up to 30 requests with extra operations: set the scaling factor, "
    "mutate the previously passed array in place and pass it again, pass a new array with the same values, overwrite the gradient array that was returned (also in the exhaustive part, as a second variant of every history), points containing -0.0/0.0; user callables that overwrite the array they are handed (a third variant of every history); wrappers built from a float32 / float16 / integer start point (short histories exhaustively, and in the machine); histories of length 2..4 in which one call of the user's objective or gradient raises once and the harness repeats the request (only the freshness of the answers is judged after that). Oracle: every answer equals a fresh evaluation by the harness "
    "times the scaling factor current at the time of the answer; counters equal the call log; no objective call at the point of the immediately preceding request when that already produced f. "
    "non-trivial = the history revisits a point after visiting another, or mutates a passed array, or changes the scaling factor between two requests at the same point; distinct = distinct history"
)
ASSUMPTIONS = [
    "finite-difference gradients are compared (1e-12 relative) with the harness's own call of scipy's approx_derivative using the documented options",
    "a cache larger than one cell would also satisfy the property: the number of cells is not asserted",
]
EXHAUSTIVE_ONLY = False
A = np.array([0.3, -1.1, 0.7])
POINTS = [np.array([0.25, -0.5, 1.5]), np.array([1.0, 2.0, -0.75]), np.array([-0.0, 0.0, 3.0])]
OPS = ("fun", "grad", "fun_and_grad")


def f_pure(x):
    x = np.asarray(x)
    v = np.sum((x - A) ** 2) + 0.5 * np.sin(x[0]) * x[1] + 0.1 * x[2] ** 3
    return v if np.iscomplexobj(v) else float(v)


def g_pure(x):
    x = np.asarray(x, dtype=float)
    g = 2.0 * (x - A)
    g[0] += 0.5 * np.cos(x[0]) * x[1]
    g[1] += 0.5 * np.sin(x[0])
    g[2] += 0.3 * x[2] ** 2
    return g


def fd_ref(p, mode, eps, rel):
    from scipy.optimize._numdiff import approx_derivative

    if mode is None:
        return approx_derivative(f_pure, p, method="2-point", abs_step=eps, bounds=(-np.inf, np.inf))
    return approx_derivative(f_pure, p, method=mode, rel_step=rel, bounds=(-np.inf, np.inf))


class Wrapper:
    """The wrapper under test plus the harness's call log."""

    def __init__(self, mode, eps=1e-8, rel=None, x0_dtype="float64", scribble=False, fault=None):
        from lbfgsb.scalar_function import prepare_scalar_function

        self.mode, self.eps, self.rel = mode, eps, rel
        self.flog, self.glog = [], []
        # fault = ["fun"|"jac", j]: the j-th call of that user function raises once; the harness catches the exception
        # and repeats the request -- the repeated request is a request like any other and must be answered freshly
        self.fault = tuple(fault) if fault else None
        self.faulted = False

        def fun(x, *a):
            if self.fault == ("fun", len(self.flog)) and not self.faulted:
                self.faulted = True
                self.flog.append(np.array(x, copy=True))
                raise InjectedFault("objective failed once")
            self.flog.append(np.array(x, copy=True))  # complex for 'cs' stencil points, which are not "the point p"
            v = f_pure(x)
            if scribble and isinstance(x, np.ndarray) and x.flags.writeable:
                x[...] = 7.25  # the user "may overwrite" the array it is handed: the wrapper must not care
            return v

        def jac(x, *a):
            if self.fault == ("jac", len(self.glog)) and not self.faulted:
                self.faulted = True
                self.glog.append(np.array(x, dtype=float, copy=True))
                raise InjectedFault("gradient failed once")
            self.glog.append(np.array(x, dtype=float, copy=True))
            gv = g_pure(x)
            if scribble and isinstance(x, np.ndarray) and x.flags.writeable:
                x[...] = gv  # e.g. a gradient computed in place in the argument buffer
                return x
            return gv

        # the wrapper may be built from a start point of any real dtype (float32, integers, ...): requests
        # made later at float64 points must still be answered at exactly those points
        x_start = (np.round(POINTS[0]) if "int" in x0_dtype else POINTS[0]).astype(x0_dtype)
        self.sf = prepare_scalar_function(fun, x_start, jac=(jac if mode == "callable" else mode), epsilon=eps, finite_diff_rel_step=rel)
        self.scale = 1.0
        self.n_grad_requests = 0
        self.grad_runs = 0
        self.prev = None  # (point values, had_f, had_g)
        self.revisit = False
        self.seen = []
        self.same_point_scale_change = False

    def set_scale(self, s):
        self.sf.scaling_factor = s
        if self.prev is not None:
            self.pending_scale_change = True
        self.scale = s

    def request(self, op, p, tag=""):
        """p: the array object handed to the wrapper (the harness keeps its own copy of the values)."""
        pv = np.array(p, dtype=float, copy=True)
        retried = False
        for attempt in (0, 1):
            nf0, ng0 = len(self.flog), len(self.glog)
            try:
                if op == "fun":
                    out_f, out_g = self.sf.fun(p), None
                elif op == "grad":
                    out_f, out_g = None, self.sf.grad(p)
                else:
                    out_f, out_g = self.sf.fun_and_grad(p)
            except InjectedFault:
                if attempt == 1:
                    raise
                retried = True
                self.prev = None  # what the failed request left behind is not specified; only the freshness of answers is
                continue
            break
        require(np.array_equal(np.asarray(p, dtype=float), pv), "argument-untouched", f"{op}: the passed array was modified")
        s = self.scale
        if out_f is not None:
            want = f_pure(pv) * s
            require(out_f == want, "value-is-fresh", f"{tag}{op} at {pv.tolist()}: got {out_f!r}, fresh evaluation times scaling ({s!r}) is {want!r}")
        if out_g is not None:
            out_g = np.asarray(out_g)
            if self.mode == "callable":
                want_g = g_pure(pv) * s
                require(out_g.shape == want_g.shape and np.array_equal(out_g, want_g), "gradient-is-fresh",
                        f"{tag}{op} at {pv.tolist()}: gradient {out_g.tolist()} vs fresh {want_g.tolist()} (scaling {s!r})")
            else:
                want_g = fd_ref(pv, self.mode, self.eps, self.rel) * s
                err = float(np.max(np.abs(out_g - want_g)))
                require(out_g.shape == want_g.shape and err <= 1e-12 * (1.0 + float(np.max(np.abs(want_g)))), "gradient-is-fresh",
                        f"{tag}{op} at {pv.tolist()}: FD gradient deviates {err:.3e} from the harness's own differencing at that point (scaling {s!r})")
        # no re-evaluation at the point last evaluated
        new_f_here = [q for q in self.flog[nf0:] if np.array_equal(q, pv)]
        if self.prev is not None and np.array_equal(self.prev[0], pv) and self.prev[1]:
            require(len(new_f_here) == 0, "no-re-evaluation-at-same-point", f"{tag}{op} at {pv.tolist()}: objective evaluated again although the previous request was at the same point and produced f")
        require(len(new_f_here) <= 1, "no-re-evaluation-at-same-point", f"{tag}{op}: objective evaluated {len(new_f_here)} times at the requested point within one request")
        if self.mode == "callable" and self.prev is not None and np.array_equal(self.prev[0], pv) and self.prev[2] and out_g is not None:
            require(len(self.glog) == ng0, "no-re-evaluation-at-same-point", f"{tag}{op}: gradient evaluated again at the same point")
        # counters (whether a call that raised counts is not specified: not judged once a fault has occurred)
        if self.faulted:
            self.prev = (pv, out_f is not None or (self.mode != "callable" and out_g is not None), out_g is not None)
            if not any(np.array_equal(q, pv) for q in self.seen):
                self.seen.append(pv)
            return out_f, out_g
        require(self.sf.nfev == len(self.flog), "nfev-equals-calls", f"{tag}nfev={self.sf.nfev} but {len(self.flog)} objective calls were made")
        if out_g is not None:
            self.n_grad_requests += 1
            if self.prev is None or not np.array_equal(self.prev[0], pv) or not self.prev[2]:
                self.grad_runs += 1
        if self.mode == "callable":
            require(self.sf.ngev == len(self.glog), "ngev-equals-gradient-computations", f"{tag}ngev={self.sf.ngev} but {len(self.glog)} gradient calls were made")
        else:
            require(self.grad_runs <= self.sf.ngev <= self.n_grad_requests, "ngev-equals-gradient-computations",
                    f"{tag}ngev={self.sf.ngev} with {self.n_grad_requests} gradient requests in {self.grad_runs} runs at new points")
        same_pt = self.prev is not None and np.array_equal(self.prev[0], pv)
        had_f = (out_f is not None) or (self.mode != "callable" and out_g is not None) or (same_pt and self.prev[1])
        had_g = (out_g is not None) or (same_pt and self.prev[2])
        if any(np.array_equal(q, pv) for q in self.seen[:-1]) and not same_pt:
            self.revisit = True
        if same_pt and getattr(self, "pending_scale_change", False):
            self.same_point_scale_change = True
        self.pending_scale_change = False
        if not same_pt:
            self.seen.append(pv)
        self.prev = (pv, had_f, had_g)
        return out_f, out_g


def run_history(item, stats=None):
    mode, hist = item["mode"], item["hist"]
    w = Wrapper(None if mode == "None" else mode, item.get("eps", 1e-8), item.get("rel"), item.get("x0_dtype", "float64"), bool(item.get("scribble")), item.get("fault"))
    try:
        for k, (op, pi) in enumerate(hist):
            _, og = w.request(OPS[op], POINTS[pi].copy(), tag=f"[{mode}] step {k}: ")
            if item.get("mutate_returned") and isinstance(og, np.ndarray) and og.flags.writeable:
                # the caller owns what it was handed: scribbling over it must not reach the wrapper's cache
                og *= -3.0
                og += 1.0
    except Violation as v:
        v.spec = item
        raise
    if stats is not None:
        stats.case(item, w.revisit or bool(item.get("mutate_returned")) or "x0_dtype" in item or bool(item.get("scribble")) or w.faulted, [f"mode={mode}", f"user_function_raised_once={w.faulted}", f"len={len(hist)}", f"mutate_returned={bool(item.get('mutate_returned'))}", f"x0_dtype={item.get('x0_dtype', 'float64')}", f"scribble={bool(item.get('scribble'))}"],
                   sample={"mode": mode, "history": [f"{OPS[o]}(P{p})" for o, p in hist]} if len(hist) >= 3 else None)


def enum_items(modes_len):
    letters = [(o, p) for o in range(3) for p in range(3)]
    for mode, L in modes_len:
        for ln in range(1, L + 1):
            for hist in itertools.product(letters, repeat=ln):
                yield {"mode": mode, "hist": [list(h) for h in hist]}
                if ln <= L - 1 and any(o != 0 for o, _ in hist):
                    yield {"mode": mode, "hist": [list(h) for h in hist], "mutate_returned": True}
                if ln <= min(L - 1, 3):
                    for dt in ("float32", "int64", "float16"):
                        yield {"mode": mode, "hist": [list(h) for h in hist], "x0_dtype": dt}
                if ln <= L - 1:
                    yield {"mode": mode, "hist": [list(h) for h in hist], "scribble": True}
                if 2 <= ln <= min(L - 1, 4):
                    # a user function that raises once, the request is repeated
                    for j in range(1, ln + 1):
                        yield {"mode": mode, "hist": [list(h) for h in hist], "fault": ["fun", j]}
                    if mode == "callable":
                        for j in range(0, ln):
                            yield {"mode": mode, "hist": [list(h) for h in hist], "fault": ["jac", j]}


# ---------------------------------------------------------------- stateful part
def apply_ops(spec, stats=None):
    w = Wrapper(None if spec["mode"] == "None" else spec["mode"], spec.get("eps", 1e-8), spec.get("rel"), spec.get("x0_dtype", "float64"), bool(spec.get("scribble")))
    last_arr = None
    last_out = None
    mutated = False
    for k, op in enumerate(spec["ops"]):
        kind = op["kind"]
        if kind == "scale":
            w.set_scale(op["s"])
        elif kind == "req":
            last_arr = np.array(op["p"], dtype=float)
            last_out = w.request(op["op"], last_arr, tag=f"[{spec['mode']}] step {k}: ")
        elif kind == "mutate" and last_arr is not None:
            last_arr[op["i"] % last_arr.size] += op["d"]
            mutated = True
            last_out = w.request(op["op"], last_arr, tag=f"[{spec['mode']}] step {k} (same array mutated in place): ")
        elif kind == "same-values" and last_arr is not None:
            last_arr = np.array(last_arr, copy=True)
            last_out = w.request(op["op"], last_arr, tag=f"[{spec['mode']}] step {k} (new array, same values): ")
        elif kind == "mutate-returned" and last_out is not None and isinstance(last_out[1], np.ndarray):
            if last_out[1].flags.writeable:
                last_out[1][...] = last_out[1] * op["a"] + op["b"]
                mutated = True
    return w, mutated


def make_machine(state, stats):
    class M(RuleBasedStateMachine):
        def __init__(self):
            super().__init__()
            self.spec = None
            self.dead = False

        @initialize(mode=st.sampled_from(["callable", "callable", "None", "2-point", "3-point", "cs"]), rel=st.sampled_from([None, 1e-7]), eps=st.sampled_from([1e-8, 1e-6]),
                    dt=st.sampled_from(["float64", "float64", "float32", "int64", "float16"]))
        def init(self, mode, rel, eps, dt):
            self.spec = {"mode": mode, "rel": rel, "eps": eps, "x0_dtype": dt, "ops": [], "scribble": dt == "float64" and rel is None and eps == 1e-6}

        def _do(self, op):
            if self.dead or not state["budget_left"]():
                return
            self.spec["ops"].append(op)
            try:
                self.res = apply_ops(self.spec, None)
            except Violation as v:
                if state["note"]({k: (list(val) if k == "ops" else val) for k, val in self.spec.items()}, v):
                    raise
                self.dead = True

        @rule(op=st.sampled_from(OPS), pi=st.integers(0, 2), jitter=st.sampled_from([0.0, 0.0, 0.0, 0.5, -1.25]))
        def request(self, op, pi, jitter):
            p = POINTS[pi].copy()
            p[1] += jitter
            self._do({"kind": "req", "op": op, "p": p.tolist()})

        @rule(s=st.sampled_from([1.0, 0.5, 2.0, 3.7, 1e-3, 250.0]))
        def set_scaling(self, s):
            self._do({"kind": "scale", "s": s})

        @rule(op=st.sampled_from(OPS), i=st.integers(0, 2), d=st.sampled_from([1.0, -0.5, 1e-9, 0.0]))
        def mutate_last_argument_in_place(self, op, i, d):
            self._do({"kind": "mutate", "op": op, "i": i, "d": d})

        @rule(op=st.sampled_from(OPS))
        def request_same_values_new_array(self, op):
            self._do({"kind": "same-values", "op": op})

        @rule(a=st.sampled_from([2.0, -1.0, 0.0]), b=st.sampled_from([0.0, 1.0]))
        def mutate_returned_gradient_in_place(self, a, b):
            self._do({"kind": "mutate-returned", "a": a, "b": b})

        def teardown(self):
            if self.spec is not None and self.spec["ops"] and not self.dead and getattr(self, "res", None) is not None:
                w, mutated = self.res
                stats.case(self.spec, w.revisit or mutated or w.same_point_scale_change,
                           [f"mode={self.spec['mode']}", "src=machine", f"mutated={mutated}", f"scale-change-same-point={w.same_point_scale_change}"],
                           sample={"mode": self.spec["mode"], "ops": [(o["kind"], o.get("op"), o.get("s")) for o in self.spec["ops"]][:12]})

    return M


def shard(ctx):
    if ctx.tier == "quick":
        plan = [("callable", 5), ("2-point", 5), ("None", 4), ("3-point", 4), ("cs", 4)]
    else:
        plan = [("callable", 6), ("2-point", 6), ("None", 5), ("3-point", 5), ("cs", 5)]
    ctx.enum("histories", enum_items(plan), run_history)
    ctx.stats.extra["exhaustive_history_lengths"] = 0  # placeholder so that the key exists in diagnostics
    ctx.machine("machine", make_machine, ctx.pick(1500, 30000), 30)


def replay(spec):
    if "hist" in spec:
        run_history(spec, None)
    else:
        apply_ops(spec, None)
