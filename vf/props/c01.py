"""C01 -- convex box-constrained problems are solved to a first-order (KKT) point.

Validity-predicate oracle: the projected gradient recomputed by the harness at the
returned point is at the level of the tolerance or of the objective's rounding floor."""

from __future__ import annotations

import itertools

import numpy as np
from hypothesis import strategies as st

from vf.core import Discard, Violation, require
from vf.observe import MSG_ABNORMAL, run_min
from vf.specs import CONVEX_FAMILIES, build, problem_spec

ID = "C01"
LEVEL = "exploration"
RULE = (
    "Hypothesis draws strictly convex problems (box QP with condition number <= 1e4, QP+quartic, QP+softplus; n=1..12), boxes of every kind (finite, one-sided, infinite, degenerate), feasible starts "
    "on faces / vertices / interior, maxcor 1..10, gtol in {1e-3,1e-5,1e-6,1e-8} (a quarter of the problems are posed in other units -- x scaled by 10^-6..6, f by 10^-8..8 -- with gtol relative to the projected gradient at the start), ftol=0, maxiter=1500, maxfun=6000 (re-run once with 22500/90000 if the run ends on a budget limit), exact gradient. In thorough additionally ALL start placements {lower, interior, upper}^n "
    "for n<=4 on drawn problems. The harness recomputes g at the returned x and requires pg <= max(10*gtol, 10*sqrt(delta_f*L)) whatever the message. non-trivial = some variable is on a bound at "
    "the start with the gradient pushing outward, or >=1 bound is active at the returned point after >=1 iteration; distinct = distinct problem spec"
)
ASSUMPTIONS = [
    "delta_f = (n+2)*eps*fmag(x) with fmag the sum of absolute values of the terms of f, L the largest curvature at x, both known from the construction: sqrt(delta_f*L) is the objective's resolution expressed as a gradient norm (measured max ratio 0.39 over 2454 floor-limited runs; factor 10 applied)",
    "budget ample by construction (median 14 iterations, 90% <= 92)",
]
EPS = 2.220446049250313e-16


def judge(prob, tr, gtol, spec, stats=None, extra_labels=()):
    if tr.exc is not None:
        raise Violation("no-exception", f"{type(tr.exc).__name__}: {str(tr.exc)[:200]}")
    x = tr.res["x"]
    require(bool(np.all(x >= prob.lb) and np.all(x <= prob.ub)), "returned-point-feasible", "result.x outside the box")
    g = prob.obj.g(x)
    pg = prob.pg(x, g)
    df = (prob.n + 2) * EPS * prob.obj.fmag(x)
    L = prob.obj.curv(x)
    floor = 10.0 * np.sqrt(df * L)
    bound = max(10.0 * gtol, floor)
    g0 = prob.obj.g(np.clip(prob.x0, prob.lb, prob.ub))
    n_out = prob.n_outward(np.clip(prob.x0, prob.lb, prob.ub), g0)
    n_act = prob.n_on_bound(x)
    if stats is not None:
        stats.maxi("max_pg_over_bound", pg / bound)
        floor_limited = pg > gtol
        stats.case(spec, n_out >= 1 or (n_act >= 1 and tr.res["nit"] >= 1),
                   [f"outward_at_start={min(n_out, 2)}{'+' if n_out > 2 else ''}", f"active_at_end={min(n_act, 2)}{'+' if n_act > 2 else ''}", f"msg={tr.res['message'][:26]}",
                    f"nit={'0' if tr.res['nit'] == 0 else '1-20' if tr.res['nit'] <= 20 else '21-100' if tr.res['nit'] <= 100 else '100+'}", f"floor_limited={floor_limited}", *extra_labels],
                   sample={"family": spec["problem"]["obj"]["family"], "n": prob.n, "maxcor": spec["maxcor"], "gtol": gtol, "nit": tr.res["nit"], "message": tr.res["message"],
                           "pg_recomputed": pg, "bound": bound, "outward_at_start": n_out, "active_at_end": n_act})
    if pg > bound:
        raise Violation("reaches-kkt-point" if tr.res["message"] != MSG_ABNORMAL else "reaches-kkt-point(abnormal-termination-far-from-stationary)",
                        f"recomputed projected gradient {pg:.3e} > max(10*gtol={10 * gtol:.1e}, floor={floor:.1e}); message={tr.res['message']!r}, nit={tr.res['nit']}, nfev={tr.res['nfev']}, "
                        f"outward at start={n_out}, active at end={n_act}")


def run_with_ample_budget(prob, maxcor, gtol, stats=None):
    """The premise is an *ample* budget.  1500 iterations are ample for almost every generated problem
    (median 14), but L-BFGS with one or two pairs on a condition number near 1e4 legitimately needs a few
    thousand (SciPy's reference needs the same number): a run that ends on the iteration / evaluation limit
    is therefore continued once with a 15x budget before it is judged."""
    from vf.observe import MSG_EVAL, MSG_ITER

    cfg = {"maxcor": maxcor, "maxiter": 1500, "maxfun": 6000, "maxls": 20, "ftol": 0.0, "gtol": gtol}
    tr = run_min(prob, cfg)
    if tr.exc is None and tr.res["message"] in (MSG_ITER, MSG_EVAL):
        if stats is not None:
            stats.bump("budget-escalated")
        cfg.update(maxiter=22500, maxfun=90000)
        tr = run_min(prob, cfg)
    return tr


def resolve_gtol(prob, spec):
    """In other units the tolerance is given relative to the projected gradient at the start (an absolute
    1e-5 means nothing when g is measured in units of 1e+8 or 1e-8)."""
    if "units" not in spec["problem"]:
        return spec["gtol"]
    x0 = np.clip(prob.x0, prob.lb, prob.ub)
    pg0 = prob.pg(x0, prob.obj.g(x0))
    return spec["gtol"] * pg0 if pg0 > 0 else spec["gtol"]


def check(spec, stats=None):
    prob = build(spec["problem"])
    gtol = resolve_gtol(prob, spec)
    tr = run_with_ample_budget(prob, spec["maxcor"], gtol, stats)
    judge(prob, tr, gtol, spec, stats, extra_labels=(("units=other",) if "units" in spec["problem"] else ()))


@st.composite
def strategy(draw):
    p = draw(problem_spec(families=CONVEX_FAMILIES, n_max=12, kappa_max_exp=4.0, units=True))
    if "units" in p:
        # The curvature rule that C10 states (a pair is stored only if s.y > eps*y.y, i.e. curvature < 1/eps = 4.5e15)
        # makes every pair unstorable once the curvature *in the user's units* exceeds 1/eps: the solver is then
        # steepest descent with a unit initial matrix and its line search gives up (observation in DESIGN 11.8).
        # That regime is outside this property's families; units are kept to curvature scales 1e-8 .. 1e8.
        import math

        lx, lf = math.log10(p["units"]["xs"]), math.log10(p["units"]["fs"])
        lf = min(max(lf, 2 * lx - 8), 2 * lx + 8)
        p["units"]["fs"] = 10.0 ** round(lf)
    return {"problem": p, "maxcor": draw(st.integers(1, 10)), "gtol": draw(st.sampled_from([1e-3, 1e-5, 1e-6, 1e-8]))}


def placements_body(spec, stats):
    """All start placements {lower, interior, upper}^n of one drawn problem with a finite box."""
    base = spec["problem"]
    n = base["obj"]["n"]
    lb, ub = base["lb"], base["ub"]
    for combo in itertools.product((0, 1, 2), repeat=n):
        x0 = [lb[i] if c == 0 else ub[i] if c == 2 else lb[i] + spec["frac"][i] * (ub[i] - lb[i]) for i, c in enumerate(combo)]
        p = dict(base)
        p["x0"] = x0
        sub = {"problem": p, "maxcor": spec["maxcor"], "gtol": spec["gtol"]}
        prob = build(p)
        try:
            judge(prob, run_with_ample_budget(prob, spec["maxcor"], spec["gtol"], stats), spec["gtol"], sub, stats, extra_labels=("src=all-placements",))
        except Violation as v:
            v.spec = sub
            raise Violation(v.clause, v.detail, sub)


@st.composite
def placements_strategy(draw):
    from vf.specs import grid

    p = draw(problem_spec(families=CONVEX_FAMILIES, n_min=1, n_max=4, kappa_max_exp=4.0, box_mode="boxed", allow_degenerate=False))
    return {"problem": p, "maxcor": draw(st.integers(1, 10)), "gtol": draw(st.sampled_from([1e-5, 1e-8])), "frac": [draw(grid(0.05, 0.95, 18)) for _ in range(p["obj"]["n"])]}


def shard(ctx):
    ctx.hyp("runs", strategy(), check, ctx.pick(4000, 40000))
    ctx.hyp("all-placements", placements_strategy(), placements_body, ctx.pick(96, 640))


def replay(spec):
    if "frac" in spec:
        from vf.core import Stats

        placements_body(spec, Stats())
    else:
        check(spec, None)
