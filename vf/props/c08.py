"""C08 -- the generalized Cauchy point is the first local minimiser along the projected path.

Oracle: (a) exact clauses (feasible, variables pinned exactly, model value not above
m(x)=0, auxiliary vector c = W'(xc-x)); (b) an independent reference implementation of
Algorithm CP with a dense B (densified from the model the routine was given); where the
returned point differs from the reference the definition predicate (first local minimiser
with a stated tolerance) decides, so that a different resolution of a numerical tie is not
reported."""

from __future__ import annotations

import itertools
import random
from collections import deque

import numpy as np
from hypothesis import strategies as st

from vf.core import Discard, Violation, derive_seed, require
from vf.families import householder_Q
from vf.refmodels import breakpoints, char_len, compact_B_from_mats, gcp_predicate, model_value, ref_cauchy_point
from vf.specs import grid, loggrid, sgrid, vec

ID = "C08"
LEVEL = "exploration"
RULE = (
    "(i) exhaustive structural patterns per variable {bound kind none/lower/upper/both} x {position lower/interior/upper} x {gradient sign -,0,+} "
    "for n<=2 (quick) / n<=3 (thorough), each with 3 numeric realisations x memory {0,1,3 pairs}; (ii) Hypothesis cases n=1..10, 0..maxcor pairs from an SPD matrix, "
    "forced breakpoint ties, gradient scale 1e-3..1e3, a third of the cases with 1-2 further calls on the same matrices object at other points, optionally some 'inert' variables (zero gradient component and zero rows in every pair, i.e. variables the objective ignores); (iii) inputs intercepted in real box runs (convex and non-convex families, maxls down to 1, optionally a large user eps_SY so that pairs are rejected and the same matrices object is used again at the next iterate). "
    "non-trivial = some variable sits on a bound with the gradient pushing outward and its index differs from its rank in the breakpoint order, "
    "or >=2 breakpoints are crossed with >=1 pair in memory; distinct = distinct input hash"
)
ASSUMPTIONS = [
    "the model handed to the routine (theta, W, invMfactors) is positive definite -- built from positive-curvature pairs; its dense form is computed by the harness",
    "point comparison tolerance 1e-7 relative; where it fails the definition predicate with tolerance 1e-9*(|g|^2+|B||z||g|) decides",
    "numeric instantiation of enumerated structural patterns uses random.Random(seed derived from VERIF_SEED and the pattern index); every number is stored in the replay spec",
]


def build_mats(n, S, Y, maxcor):
    from lbfgsb.bfgsmats import LBFGSB_MATRICES, update_lbfgs_matrices

    mats = LBFGSB_MATRICES(n)
    X = deque([np.zeros(n)])
    G = deque([np.zeros(n)])
    xk = np.zeros(n)
    gk = np.zeros(n)
    for s, y in zip(S, Y):
        xk = xk + np.asarray(s, dtype=float)
        gk = gk + np.asarray(y, dtype=float)
        mats = update_lbfgs_matrices(xk.copy(), gk.copy(), X, G, maxcor, mats, False)
    return mats, len(X) - 1


MATS_FIELDS = ("S", "Y", "D", "L", "W", "theta")


def mats_snapshot(mats):
    d = {k: np.array(getattr(mats, k), dtype=float, copy=True) for k in MATS_FIELDS if hasattr(mats, k)}
    f = getattr(mats, "invMfactors", None)
    if f is not None:
        d["invM0"], d["invM1"] = np.array(f[0], copy=True), np.array(f[1], copy=True)
    return d


def mats_equal(a, b):
    return a.keys() == b.keys() and all(a[k].shape == b[k].shape and np.array_equal(a[k], b[k]) for k in a)


def check_gcp(x, g, lb, ub, mats, xc, c, stats=None, tag="syn"):
    n = x.size
    if not (np.all(x >= lb) and np.all(x <= ub)):
        # precondition of the property ("for any feasible point"); an infeasible iterate is C02's finding
        raise Discard("infeasible x handed to the routine (precondition; see C02)")
    B = compact_B_from_mats(mats, n)
    ev = np.linalg.eigvalsh(0.5 * (B + B.T))
    if ev.min() <= 1e-10 * max(ev.max(), 1e-300):
        raise Discard("model not numerically SPD")
    tb = breakpoints(x, g, lb, ub)
    require(np.all(np.isfinite(xc)), "finite", f"xc={xc}")
    require(bool(np.all(xc >= lb) and np.all(xc <= ub)), "feasible", f"xc={xc.tolist()} lb={lb.tolist()} ub={ub.tolist()}")
    require(bool(np.all(xc[tb == 0] == x[tb == 0]) and np.all(xc[g == 0] == x[g == 0])), "stationary-variables-stay",
            "a variable with zero breakpoint or zero gradient moved")
    # resolution floor (runs intercepted with gtol=0 end there): when the whole projected-gradient step is worth less
    # than ~10^4 ulps of x every model quantity below is rounding noise; only the exact clauses above are judged
    pg_now = float(np.max(np.abs(np.clip(x - g, lb, ub) - x)))
    if pg_now / max(float(mats.theta), 1e-300) <= 1e4 * 2.2e-16 * max(float(np.max(np.abs(x))), 1e-300):
        if stats is not None:
            stats.bump("at-resolution-floor(only-exact-clauses)")
        return 0.0, 0.0
    m_xc = model_value(x, g, B, xc)
    z = xc - x
    gn2 = float(g @ g)
    Bn = float(np.linalg.norm(B, 2))
    mtol = 1e-9 * (abs(float(g @ z)) + 0.5 * Bn * float(z @ z)) + 1e-300
    require(m_xc <= mtol, "model-not-increased", f"m(xc)={m_xc:.3e} > m(x)=0")
    xref, tref = ref_cauchy_point(x, g, lb, ub, B)
    L0 = char_len(x, g, lb, ub, float(mats.theta), xref - x)
    xs = L0 + np.maximum(np.abs(xref), np.abs(x))
    dev = float(np.max(np.abs(xc - xref) / xs))
    agree = dev <= 1e-7
    if not agree:
        ok, why, info = gcp_predicate(x, g, lb, ub, B, xc, L0=L0)
        if not ok:
            raise Violation(
                "first-local-minimiser",
                f"[{tag}] xc={xc.tolist()} differs from reference {xref.tolist()} (rel dev {dev:.2e}) and fails the definition predicate at '{why}' {info}; "
                f"m(xc)={m_xc:.6e} m(ref)={model_value(x, g, B, xref):.6e}",
            )
        if stats is not None:
            stats.bump("ambiguous-tie-accepted-by-predicate")
    else:
        # pinned exactly: every variable whose breakpoint lies clearly before t* is on its bound bit-for-bit
        clearly = (tb > 0) & (tb <= tref * (1.0 - 1e-7))
        onb = np.where(g < 0, xc == ub, xc == lb)
        require(bool(np.all(onb[clearly])), "pinned-exactly",
                f"[{tag}] variables {np.nonzero(clearly & ~onb)[0].tolist()} reached their breakpoint before t*={tref} but xc={xc.tolist()} is not exactly on the bound")
    # auxiliary vector
    free_at_xc = (xc != lb) & (xc != ub)
    if np.any(free_at_xc):
        W = np.asarray(mats.W)
        if mats.use_factor:
            want = W.T @ z
            # 1e-8 relative, plus the cancellation error of forming xc - x in the harness itself
            sc = 1e-8 * float(np.linalg.norm(W) * np.linalg.norm(z)) + 16 * 2.2e-16 * float(np.linalg.norm(W) * (np.linalg.norm(x) + np.linalg.norm(xc))) + 1e-300
            cerr = float(np.max(np.abs(np.asarray(c) - want)))
            require(np.shape(c) == want.shape and cerr <= sc, "auxiliary-vector",
                    f"[{tag}] |c - W'(xc-x)|={cerr:.3e} > {sc:.3e}")
        else:
            require(bool(np.all(np.asarray(c) == 0)) , "auxiliary-vector", f"[{tag}] c={c} with empty memory")
    return tref, dev


def nontrivial(x, g, lb, ub, tb, tref, npairs):
    outward = ((x == lb) & (g > 0)) | ((x == ub) & (g < 0))
    order = np.argsort(tb, kind="stable")
    rank_mismatch = bool(np.any(outward & (order != np.arange(x.size)))) and np.count_nonzero(tb > 0) >= 1
    crossed = int(np.count_nonzero((tb > 0) & (tb <= tref)))
    return rank_mismatch or (crossed >= 2 and npairs >= 1), outward, crossed


def run_case(spec, stats=None):
    from lbfgsb.cauchy import get_cauchy_point

    n = spec["n"]
    x = np.array(spec["x"], dtype=float)
    g = np.array(spec["g"], dtype=float)
    lb = np.array([-np.inf if v is None else v for v in spec["lb"]], dtype=float)
    ub = np.array([np.inf if v is None else v for v in spec["ub"]], dtype=float)
    mats, npairs = build_mats(n, spec["S"], spec["Y"], spec["maxcor"])
    pgn = float(np.max(np.abs(np.clip(x - g, lb, ub) - x)))
    if pgn == 0.0:
        raise Discard("zero projected gradient (precondition)")
    x_in, g_in = x.copy(), g.copy()
    xc, c = get_cauchy_point(x, g, lb, ub, mats, spec.get("iter", 1), -1, None)
    require(np.array_equal(x, x_in) and np.array_equal(g, g_in), "inputs-untouched", "x or g modified in place")
    tref, dev = check_gcp(x, g, lb, ub, mats, np.asarray(xc, dtype=float), c, stats)
    snap = mats_snapshot(mats)
    fresh, _ = build_mats(n, spec["S"], spec["Y"], spec["maxcor"])
    require(mats_equal(snap, mats_snapshot(fresh)), "model-untouched", "the matrices object handed to the Cauchy search was modified by the call")
    for k, alt in enumerate(spec.get("again", [])):
        x2 = np.clip(np.array(alt["x"], dtype=float), lb, ub)
        g2 = np.array(alt["g"], dtype=float)
        if float(np.max(np.abs(np.clip(x2 - g2, lb, ub) - x2))) == 0.0:
            continue
        xc2, c2 = get_cauchy_point(x2, g2, lb, ub, mats, spec.get("iter", 1), -1, None)
        try:
            check_gcp(x2, g2, lb, ub, fresh, np.asarray(xc2, dtype=float), c2, stats, tag=f"call #{k + 2} on the same matrices object")
        except Discard:
            continue
        require(mats_equal(snap, mats_snapshot(mats)), "model-untouched", f"the matrices object was modified by call #{k + 2}")
        if stats is not None:
            stats.bump("repeated-calls-on-the-same-matrices-object")
    if stats is not None:
        tb = breakpoints(x, g, lb, ub)
        nt, outward, crossed = nontrivial(x, g, lb, ub, tb, tref, npairs)
        stats.case(spec, nt, [f"pairs={min(npairs, 3)}{'+' if npairs > 3 else ''}", f"outward={min(int(outward.sum()), 2)}{'+' if outward.sum() > 2 else ''}",
                              f"crossed={min(crossed, 3)}{'+' if crossed > 3 else ''}", f"src={spec.get('src', 'hyp')}", f"inert={bool(spec.get('inert'))}", f"units={'1' if not spec.get('units') else 'tiny' if spec['units'] < 0 else 'huge'}"])
        stats.maxi("max_rel_dev_from_reference", dev if dev <= 1e-7 else 0.0)


# ----------------------------------------------------------------------------
# (ii) generated cases
# ----------------------------------------------------------------------------


@st.composite
def pairs_spd(draw, n, kmax, inert=()):
    """Positive-curvature pairs y = A s.  `inert` variables are variables the objective does not depend
    on: their components of every s and y are exactly zero (A is block-diagonal with respect to them)."""
    k = draw(st.integers(0, kmax))
    lam = [10.0 ** draw(grid(-1.0, 2.0, 30)) for _ in range(n)]
    nh = draw(st.integers(0, min(2, max(n - 1, 0))))
    hv = [draw(vec(sgrid(1.0, 10), n)) for _ in range(nh)]
    for v in hv:
        for i in inert:
            v[i] = 0.0
    Q = householder_Q(hv, n)
    A = (Q * np.array(lam)) @ Q.T
    S, Y = [], []
    for _ in range(k):
        s = np.array(draw(vec(sgrid(2.0, 40), n)))
        for i in inert:
            s[i] = 0.0
        y = A @ s
        for i in inert:
            y[i] = 0.0
        S.append(s.tolist())
        Y.append(y.tolist())
    return S, Y


@st.composite
def case(draw):
    n = draw(st.integers(1, 10))
    maxcor = draw(st.integers(1, 10))
    inert = ()
    if n >= 2 and draw(st.integers(0, 3)) == 0:
        inert = tuple(sorted(set(draw(st.lists(st.integers(0, n - 1), min_size=1, max_size=max(1, n // 2))))))
    S, Y = draw(pairs_spd(n, maxcor, inert))
    gscale = draw(loggrid(-3, 3, 12))
    x, g, lb, ub = [], [], [], []
    for i in range(n):
        kind = draw(st.sampled_from(["none", "lower", "upper", "both", "both"]))
        c = draw(sgrid(2.0, 20))
        wl = draw(loggrid(-1.5, 1.0, 10))
        wu = draw(loggrid(-1.5, 1.0, 10))
        l = c - wl if kind in ("lower", "both") else None
        u = c + wu if kind in ("upper", "both") else None
        pos = draw(st.sampled_from(["lower", "upper", "interior", "interior"]))
        fr = draw(grid(0.05, 0.95, 18))
        if pos == "lower" and l is not None:
            xi = l
        elif pos == "upper" and u is not None:
            xi = u
        elif l is not None and u is not None:
            xi = min(max(l + fr * (u - l), l), u)
        elif l is not None:
            xi = l + 2.0 * fr
        elif u is not None:
            xi = u - 2.0 * fr
        else:
            xi = c
        sign = draw(st.sampled_from([-1.0, 1.0, -1.0, 1.0, 0.0]))
        gi = sign * gscale * draw(grid(0.05, 2.0, 39))
        if i in inert:
            gi = 0.0
        x.append(xi); g.append(gi); lb.append(l); ub.append(u)
    # forced ties between breakpoints
    if n >= 2 and draw(st.integers(0, 3)) == 0:
        xa = np.array(x); ga = np.array(g)
        lba = np.array([-np.inf if v is None else v for v in lb]); uba = np.array([np.inf if v is None else v for v in ub])
        tb = breakpoints(xa, ga, lba, uba)
        fin = np.nonzero((tb > 0) & np.isfinite(tb))[0]
        if fin.size >= 1:
            i = int(fin[draw(st.integers(0, fin.size - 1))])
            for j in range(n):
                if j == i or g[j] == 0:
                    continue
                dist = (x[j] - lba[j]) if g[j] > 0 else (uba[j] - x[j])
                if np.isfinite(dist) and dist > 0 and draw(st.booleans()):
                    g[j] = float(np.sign(g[j]) * dist / tb[i])
    out = {"n": n, "maxcor": maxcor, "S": S, "Y": Y, "x": x, "g": g, "lb": lb, "ub": ub, "iter": draw(st.sampled_from([0, 1, 5])), "src": "hyp", "inert": list(inert)}
    # the routine called again with the *same* matrices object at another point of the same box (what the solver does when
    # the newest pair is rejected): the answer must depend on the arguments only, and the matrices must come back untouched
    again = []
    if len(S) >= 1 and draw(st.integers(0, 2)) == 0:
        for _ in range(draw(st.integers(1, 2))):
            x2, g2 = [], []
            for i in range(n):
                l, u = lb[i], ub[i]
                pos = draw(st.sampled_from(["same", "lower", "upper", "interior"]))
                fr = draw(grid(0.05, 0.95, 18))
                if pos == "lower" and l is not None:
                    xi = l
                elif pos == "upper" and u is not None:
                    xi = u
                elif pos == "interior" and l is not None and u is not None:
                    xi = min(max(l + fr * (u - l), l), u)
                else:
                    xi = x[i]
                gi = 0.0 if i in inert else draw(st.sampled_from([-1.0, 1.0, -1.0, 1.0, 0.0])) * gscale * draw(grid(0.05, 2.0, 39)) * draw(st.sampled_from([1.0, 1.0, 30.0]))
                x2.append(xi); g2.append(gi)
            again.append({"x": x2, "g": g2})
    if again:
        out["again"] = again
    ku = draw(st.sampled_from([0, 0, 0, -9, -6, -3, 3, 6]))
    if ku:
        # the same instance in other units: lengths * xs, gradients * fs/xs
        xs_ = 10.0 ** ku
        gs_ = 10.0 ** draw(st.sampled_from([-6, -3, 0, 3, 6])) / xs_
        out["x"] = [v * xs_ for v in x]
        out["lb"] = [None if v is None else v * xs_ for v in lb]
        out["ub"] = [None if v is None else v * xs_ for v in ub]
        out["S"] = [[v * xs_ for v in s_] for s_ in S]
        out["g"] = [v * gs_ for v in g]
        out["Y"] = [[v * gs_ for v in y_] for y_ in Y]
        out["units"] = ku
        for a in out.get("again", []):
            a["x"] = [v * xs_ for v in a["x"]]
            a["g"] = [v * gs_ for v in a["g"]]
    return out


# ----------------------------------------------------------------------------
# (i) exhaustive structural patterns
# ----------------------------------------------------------------------------

VAR_PATTERNS = []
for kind in ("none", "lower", "upper", "both"):
    for pos in ("lower", "interior", "upper"):
        if pos == "lower" and kind not in ("lower", "both"):
            continue
        if pos == "upper" and kind not in ("upper", "both"):
            continue
        for sgn in (-1, 0, 1):
            VAR_PATTERNS.append((kind, pos, sgn))
assert len(VAR_PATTERNS) == 24


def instantiate(pattern, mem, rep, seed):
    n = len(pattern)
    rnd = random.Random(derive_seed(seed, "C08", str(pattern), mem, rep))
    x, g, lb, ub = [], [], [], []
    gscale = 10.0 ** rnd.uniform(-2, 2)
    for kind, pos, sgn in pattern:
        c = rnd.uniform(-2, 2)
        wl, wu = 10.0 ** rnd.uniform(-1.5, 1.0), 10.0 ** rnd.uniform(-1.5, 1.0)
        l = c - wl if kind in ("lower", "both") else None
        u = c + wu if kind in ("upper", "both") else None
        if pos == "lower":
            xi = l
        elif pos == "upper":
            xi = u
        elif l is not None and u is not None:
            xi = l + rnd.uniform(0.05, 0.95) * (u - l)
        elif l is not None:
            xi = l + rnd.uniform(0.1, 2.0)
        elif u is not None:
            xi = u - rnd.uniform(0.1, 2.0)
        else:
            xi = c
        x.append(xi); g.append(sgn * gscale * rnd.uniform(0.05, 2.0)); lb.append(l); ub.append(u)
    lam = np.array([10.0 ** rnd.uniform(-1, 2) for _ in range(n)])
    Q = householder_Q([[rnd.uniform(-1, 1) for _ in range(n)] for _ in range(min(2, n - 1))], n)
    A = (Q * lam) @ Q.T
    S, Y = [], []
    for _ in range(mem):
        s = np.array([rnd.uniform(-2, 2) for _ in range(n)])
        S.append(s.tolist()); Y.append((A @ s).tolist())
    return {"n": n, "maxcor": 5, "S": S, "Y": Y, "x": x, "g": g, "lb": lb, "ub": ub, "iter": 1, "src": "enum"}


def enum_items(nmax, seed):
    for n in range(1, nmax + 1):
        for pattern in itertools.product(VAR_PATTERNS, repeat=n):
            if all(p[2] == 0 or (p[1] == "lower" and p[2] > 0) or (p[1] == "upper" and p[2] < 0) for p in pattern):
                continue  # zero projected gradient: precondition of the routine not met
            for mem in (0, 1, 3):
                for rep in range(3):
                    yield ("pat", pattern, mem, rep, seed)


def enum_body(item, stats):
    _, pattern, mem, rep, seed = item
    spec = instantiate(pattern, mem, rep, seed)
    try:
        run_case(spec, stats)
    except Violation as v:
        v.spec = spec
        raise


# ----------------------------------------------------------------------------
# (iii) intercepted inputs from real runs
# ----------------------------------------------------------------------------


def intercepted_body(pspec, stats):
    from vf.observe import intercept, run_min
    from vf.specs import build

    prob = build(pspec["problem"])
    with intercept(("get_cauchy_point",)) as rec:
        run_min(prob, pspec["cfg"])
    for e in rec.get("get_cauchy_point", []):
        if "out" not in e:
            # the routine itself raised on an input handed over by the solver
            if isinstance(e.get("exc"), Exception) and not isinstance(e["exc"], Discard):
                raise e["exc"]
            continue
        x, g, lb, ub, mats = e["args"][0], e["args"][1], e["args"][2], e["args"][3], e["args"][4]
        xc, c = e["out"]
        try:
            tref, dev = check_gcp(np.asarray(x, float), np.asarray(g, float), lb, ub, mats, np.asarray(xc, float), c, stats, tag="intercepted")
        except Discard as d:
            stats.discard(d.why)
            continue
        tb = breakpoints(x, g, lb, ub)
        npairs = mats.S.shape[1] if mats.use_factor else 0
        nt, outward, crossed = nontrivial(x, g, lb, ub, tb, tref, npairs)
        key = {"x": x.tolist(), "g": g.tolist(), "np": npairs}
        stats.case(key, nt, ["src=intercepted", f"pairs={min(npairs, 3)}{'+' if npairs > 3 else ''}"], sample={"from_run": pspec["problem"]["obj"]["family"], "x": x.tolist(), "g": g.tolist(), "pairs": npairs})


@st.composite
def run_spec(draw):
    from vf.specs import CONVEX_FAMILIES, problem_spec

    # non-convex families and a large user eps_SY make the solver reject pairs, i.e. call both routines again with the very
    # same matrices object at the next iterate (usually with another free set)
    fams = tuple(CONVEX_FAMILIES) * 2 + ("sines", "rosenbrock", "padded")
    p = draw(problem_spec(families=fams, n_max=8, kappa_max_exp=3.0, units=True))
    cfg = {"maxcor": draw(st.integers(1, 8)), "maxiter": draw(st.integers(1, 25)), "maxfun": 200, "maxls": draw(st.sampled_from([20, 20, 1, 2])), "ftol": 0.0, "gtol": 0.0}
    k = draw(st.sampled_from([None, None, 0.05, 0.3]))
    if k is not None:
        cfg["eps_SY"] = k
    return {"problem": p, "cfg": cfg}


def shard(ctx):
    ctx.enum("patterns", enum_items(ctx.pick(2, 3), ctx.seed), enum_body)
    ctx.hyp("generated", case(), run_case, ctx.pick(20000, 400000))
    ctx.hyp("intercepted", run_spec(), intercepted_body, ctx.pick(400, 5000))


def replay(spec):
    if "problem" in spec:
        from vf.core import Stats

        intercepted_body(spec, Stats())
    else:
        run_case(spec, None)
