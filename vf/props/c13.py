"""C13 -- redefining the objective on the fly acts as a restart on the new objective.

(a) metamorphic: an identity update function leaves the run bit-for-bit unchanged;
(b) differential: a switch of the objective at update-invocation j vs. a restart on the new
    objective from the callback state holding the rewritten history; plus the invariant that
    the stored pairs are exact differences of the *rewritten* gradients."""

from __future__ import annotations

from collections import deque

import numpy as np
from hypothesis import strategies as st

from vf.core import Discard, Violation, require
from vf.families import Shifted
from vf.observe import MSG_ITER, run_min, states_equal
from vf.pairs import check_genuine_pairs
from vf.props.c06 import check_next
from vf.runspec import execute, resolve_ftarget, run_spec
from vf.specs import ALL_FAMILIES, CONVEX_FAMILIES, build, grid, loggrid, sgrid, vec

EPS = 2.220446049250313e-16
ID = "C13"
LEVEL = "exploration"
RULE = (
    "(a) Hypothesis draws C04-style configurations (incl. large ftol with a reachable target, gradient scaler, stopping callback) and compares the run with an identity update function to the run without, "
    "bitwise on all result fields incl. message and on the evaluation log. (b) draws a run and an update-invocation index j at which the update function switches the objective to f_B in "
    "{s*f, f + lam/2 |x-c|^2 (re-weighted regulariser), f - lam/2 |x-c|^2 and per-coordinate negative shifts that break curvature for a subset of pairs}, the rewritten gradients being returned either as a new deque or written into the deque that was passed (same object returned); checks the pairs of every later state "
    "(exact differences of rewritten gradients, curvature, newest stored point retained) and the next iterate against a restart on f_B from the callback state of iteration j. "
    "non-trivial = the rewrite drops >=1 but not all pairs, or the newest pair is rejected after the rewrite, or (a) both a target and ftol were within reach; distinct = distinct spec"
)
ASSUMPTIONS = [
    "after the switch the update function returns its inputs unchanged and the harness's fun/jac closures evaluate f_B",
    "next iterate compared as in C06(b): 1e-7 of the step + 1e-9*max(1,|x|)",
]


# ------------------------------------------------------------------ (a) identity
def check_identity(rspec, stats=None):
    prob = build(rspec["problem"])
    a = execute(rspec, prob=prob)
    b = execute(rspec, prob=prob, update_fun_def="identity")
    if a.exc is not None:
        raise a.exc
    if b.exc is not None:
        raise Violation("identity-update-leaves-run-unchanged", f"run with identity update function raised {type(b.exc).__name__}: {b.exc}")
    d = states_equal(a.res, b.res, fields=("x", "fun", "jac", "nfev", "njev", "nit", "sk", "yk", "success", "status", "message"))
    if d is not None:
        raise Violation(f"identity-update-leaves-run-unchanged[{d}]",
                        f"field {d!r}: without update function {a.res[d]!r}, with identity update function {b.res[d]!r} (ftol={rspec['cfg']['ftol']}, ftarget={rspec.get('ftarget')})")
    same_log = len(a.fun_calls) == len(b.fun_calls) and all(np.array_equal(p[0], q[0]) for p, q in zip(a.fun_calls, b.fun_calls)) \
        and len(a.jac_calls) == len(b.jac_calls) and all(np.array_equal(p[0], q[0]) for p, q in zip(a.jac_calls, b.jac_calls))
    require(same_log, "identity-update-leaves-run-unchanged[evaluation-log]", "evaluation points differ")
    if stats is not None:
        both = rspec.get("ftarget") is not None and rspec["cfg"]["ftol"] >= 1e-2
        stats.case(rspec, both or a.res["nit"] >= 2, ["kind=identity", f"msg={a.res['message'][:26]}", f"updcalls={min(len(b.upd_calls), 3)}"])


@st.composite
def identity_strategy(draw):
    return draw(run_spec(families=ALL_FAMILIES, n_max=8, jac_modes=("callable", "callable", None, "2-point"), maxiter=(0, 30), maxfun=(1, 150),
                         ftols=(0.0, 1e-12, 1e-5, 1e-2, 0.3, 1.0), gtols=(1e-8, 1e-5, 1e-2), with_scaler=True, with_ftarget=True,
                         with_callback_stop=True, gtol_callable=True))


# ------------------------------------------------------------------ (b) switch
def make_objB(prob, sw):
    lam = np.array(sw["lam"], dtype=float) if isinstance(sw["lam"], list) else float(sw["lam"])
    return Shifted(prob.obj, sw["scale"], lam, sw["c"])


def numerical_breakdown_gate(tr, stats=None):
    """A switched objective may be unbounded below / flat along a direction (that is what "rewrites that
    break curvature" means), the iterates then run away, curvature pairs are accepted on rounding noise and a
    Cholesky factorisation inside the solver can break down.  The port has no memory-refresh fallback for
    that (observation recorded in DESIGN 11.3; no listed property covers it), so such an exception is not
    judged here -- unless a state the harness has seen carries a pair that violates the curvature
    condition, which is exactly what this property forbids."""
    e = tr.exc
    is_numeric = isinstance(e, (np.linalg.LinAlgError, FloatingPointError, ZeroDivisionError)) or (
        isinstance(e, ValueError) and ("infs or NaNs" in str(e) or "NaN" in str(e)))
    if not is_numeric:
        return
    for c in tr.cb:
        sk, yk = c["snap"]["sk"], c["snap"]["yk"]
        for j in range(sk.shape[0]):
            sty, yty = float(sk[j] @ yk[j]), float(yk[j] @ yk[j])
            if not sty > 2.2e-16 * yty:
                raise Violation("rewritten-pairs:curvature-condition",
                                f"state nit={c['snap']['nit']} carries a pair with s.y={sty!r} (y.y={yty!r}); the run later raised {type(e).__name__}")
    if stats is not None:
        stats.bump("numerical-breakdown-not-judged:" + type(e).__name__)
    raise Discard("numerical breakdown of the memory matrix after the redefinition (" + type(e).__name__ + ")")


def make_switch_update(prob, sw, info):
    """The update function used by C13 / C18 / C10: at invocation sw['at'] the harness's closures switch
    to f_B and the stored gradients are rewritten -- either into a new deque or, when sw['inplace'],
    by assigning into the deque that was passed and returning that same object (both are legal ways
    of "returning the updated gradient sequence")."""
    objB = make_objB(prob, sw)
    j = sw["at"]

    def upd(i, x, f0, f0_old, grad, X, G, tr):
        if i == j:
            tr.holder["obj"] = objB
            info["npairs_before"] = max(len(X) - 1, 0)
            info["ncb"] = len(tr.cb)  # the callback of the switching iteration is the next one to fire
            info["X_last"] = np.array(X[-1], copy=True) if len(X) else None
            f0n = float(objB.f(x))
            if sw.get("inplace"):
                for k, xi in enumerate(X):
                    G[k] = np.array(objB.g(xi))
                newG = G
            else:
                newG = deque(np.array(objB.g(xi)) for xi in X)
            return f0n, f0n + 1.0 + abs(f0n), np.array(objB.g(x)), newG
        return f0, f0_old, grad, G

    return upd, objB


def restart_is_well_conditioned(prob, cfg1, cb_entry, objB, ref_x, tol):
    from vf.observe import continuation_is_well_conditioned

    return continuation_is_well_conditioned(
        lambda ck: run_min(prob, cfg1, checkpoint=ck, x0=np.array(cb_entry["snap"]["x"], copy=True), obj=objB), cb_entry["live"], ref_x, tol)


def check_switch(spec, stats=None):
    rspec = spec["run"]
    prob = build(rspec["problem"])
    cfg = dict(rspec["cfg"])
    sw = spec["switch"]
    j = sw["at"]
    info = {}
    upd, objB = make_switch_update(prob, sw, info)

    tr = run_min(prob, cfg, callback="passive", update_fun_def=upd)
    if tr.exc is not None:
        numerical_breakdown_gate(tr, stats)
        raise tr.exc
    if len(tr.upd_calls) <= j:
        if stats is not None:
            stats.case(spec, False, ["kind=switch", "switch-not-reached"])
        return
    x0c = np.clip(prob.x0, prob.lb, prob.ub)
    pts = [x0c] + [c["xk"] for c in tr.cb]
    if not np.array_equal(pts[-1], tr.res["x"]):
        pts.append(tr.res["x"])
    if not all(np.all(np.isfinite(p)) for p in pts):
        raise Discard("diverged")
    gB = [np.array(objB.g(p)) for p in pts]
    if not all(np.all(np.isfinite(g)) for g in gB):
        raise Discard("diverged")
    # ---- pairs of every state from the switch on
    # update invocation j happens in iteration j only if no earlier iteration skipped the update
    # function (failed line search), so states are located through the callback count at the switch
    n_after = None
    icb = info["ncb"]
    if j >= 1 and icb < len(tr.cb):
        ksw = tr.cb[icb]["snap"]["nit"]
    else:
        ksw = None
    for ci, c in enumerate(tr.cb):
        if ci >= icb:
            first = ci == icb and j >= 1
            mc = info.get("X_last") if first and c["snap"]["sk"].shape[0] >= 1 else None
            check_genuine_pairs(pts, gB, c["snap"], "rewritten-pairs", cfg["maxcor"], what=f"callback state nit={c['snap']['nit']}", must_contain=mc)
            if first:
                n_after = c["snap"]["sk"].shape[0]
    if icb < len(tr.cb) or j == 0:
        check_genuine_pairs(pts, gB, tr.res, "rewritten-pairs", cfg["maxcor"], what="result")
    # ---- next iterate vs restart on f_B
    compared = False
    if j == 0:
        c1 = dict(cfg)
        c1["maxiter"] = 1
        ref = run_min(prob, c1, obj=objB)
        mine = [c for c in tr.cb if c["snap"]["nit"] == 1]
        if ref.exc is None and mine and ref.res["nit"] == 1 and ref.res["message"] == MSG_ITER:
            step = float(np.max(np.abs(ref.res["x"] - x0c)))
            dev = float(np.max(np.abs(mine[0]["snap"]["x"] - ref.res["x"])))
            tol = 1e-7 * step + 1e-9 * max(1.0, float(np.max(np.abs(ref.res["x"]))))
            require(dev <= tol, "next-iterate-as-restart-on-new-objective[j=0]", f"first iterate deviates {dev:.3e} (step {step:.3e}) from a fresh run on the new objective")
            compared = True
    else:
        sj = tr.cb[icb:icb + 1]
        sj1 = [c for c in tr.cb[icb + 1:icb + 2] if c["snap"]["nit"] == ksw + 1]
        if sj and sj1:
            j = ksw  # iteration number of the switching iteration
            c1 = dict(cfg)
            c1["maxiter"] = j + 1
            ref = run_min(prob, c1, checkpoint=sj[0]["live"], x0=np.array(sj[0]["snap"]["x"], copy=True), obj=objB)
            if ref.exc is not None:
                raise Violation("restart-on-new-objective-accepted", f"restart from the callback state of iteration {j} raised {type(ref.exc).__name__}: {ref.exc}")
            if ref.res["nit"] == j + 1:
                step = float(np.max(np.abs(sj1[0]["snap"]["x"] - sj[0]["snap"]["x"])))
                dev = float(np.max(np.abs(sj1[0]["snap"]["x"] - ref.res["x"])))
                tol = 1e-7 * step + 1e-9 * max(1.0, float(np.max(np.abs(ref.res["x"]))))
                if dev > tol and not restart_is_well_conditioned(prob, c1, sj[0], objB, ref.res["x"], tol):
                    # the reference itself moves by more than the tolerance when its checkpoint is changed in the last
                    # bit (a directional derivative of the Cauchy search cancelled down to rounding noise): the iterate
                    # is then not a function of the state at the precision the comparison needs -- not judged
                    if stats is not None:
                        stats.bump("next-iterate-chaotic-under-1ulp-perturbation(not judged)")
                    dev = 0.0
                if dev > tol:
                    raise Violation("next-iterate-as-restart-on-new-objective",
                                    f"switch at invocation {j}: iterate {j + 1} deviates {dev:.3e} from the restart on the new objective (step {step:.3e}, tol {tol:.3e}); "
                                    f"pairs before rewrite {info.get('npairs_before')}, in state after rewrite {n_after}")
                if stats is not None:
                    stats.maxi("max_next_iterate_dev_over_tol", dev / tol if tol > 0 else 0.0)
                compared = True
    if stats is not None:
        nb = info.get("npairs_before")
        dropped = nb is not None and n_after is not None and (nb + 1) - n_after
        newest_rejected = False
        if n_after is not None and sw["at"] >= 1:
            sjs = tr.cb[icb:icb + 1]
            if sjs and n_after >= 1 and info.get("X_last") is not None:
                # newest pair rejected <=> last stored s does not end at x_j
                newest_rejected = not np.array_equal(sjs[0]["snap"]["sk"][-1], sjs[0]["snap"]["x"] - info["X_last"])
            elif sjs and n_after == 0:
                newest_rejected = True
        nt = bool(dropped and n_after and n_after >= 1 and dropped >= 1) or newest_rejected
        stats.case(spec, nt, ["kind=switch", f"at={'0' if sw['at'] == 0 else '1-3' if sw['at'] <= 3 else '4+'}", f"compared={compared}", f"newest_rejected={newest_rejected}",
                              f"dropped={'?' if dropped is False or dropped is None else min(int(dropped), 3)}", f"variant={sw['variant']}", f"inplace={bool(sw.get('inplace'))}"],
                   sample={"family": rspec["problem"]["obj"]["family"], "switch": sw, "pairs_before": nb, "pairs_after": n_after, "compared_next_iterate": compared})


@st.composite
def switch_strategy(draw):
    r = draw(run_spec(families=ALL_FAMILIES, n_max=8, jac_modes=("callable",), maxiter=(2, 14), maxfun=(400, 400), ftols=(0.0,), gtols=(1e-10,),
                      box_mode=draw(st.sampled_from(["boxed", "boxed", "mixed"])), allow_degenerate=False))
    n = r["problem"]["obj"]["n"]
    variant = draw(st.sampled_from(["scale", "reg+", "reg-", "coord-"]))
    c = draw(vec(sgrid(2.0, 20), n))
    if variant == "scale":
        scale, lam = draw(loggrid(-2, 2, 16)), 0.0
    elif variant == "reg+":
        scale, lam = 1.0, draw(loggrid(-2, 2, 16))
    elif variant == "reg-":
        scale, lam = 1.0, -draw(loggrid(-1, 2, 12))
    else:
        scale = 1.0
        lam = [(-draw(loggrid(0, 3, 12)) if draw(st.booleans()) else 0.0) for _ in range(n)]
    at = draw(st.integers(0, max(0, r["cfg"]["maxiter"] - 1)))
    return {"run": r, "switch": {"at": at, "variant": variant, "scale": scale, "lam": lam, "c": c, "inplace": draw(st.booleans())}}


def shard(ctx):
    ctx.hyp("identity", identity_strategy(), check_identity, ctx.pick(3000, 40000))
    ctx.hyp("switch", switch_strategy(), check_switch, ctx.pick(3000, 40000))


def replay(spec):
    if "switch" in spec:
        check_switch(spec, None)
    else:
        check_identity(spec, None)
