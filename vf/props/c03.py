"""C03 -- the objective never increases from one accepted iterate to the next."""

from __future__ import annotations

from contextlib import contextmanager

import numpy as np
from hypothesis import strategies as st

from vf.core import Discard, Violation, require
from vf.observe import DOCUMENTED_MESSAGES
from vf.runspec import execute, run_spec
from vf.specs import ALL_FAMILIES, build

ID = "C03"
LEVEL = "exploration"
RULE = (
    "Hypothesis draws runs over all families (incl. oscillating 'sines' and badly scaled) x boxes x starts x maxls biased to 1..4 x maxfun from 1 biased small x "
    "ftol in {0,1e-12,1e-5} x {callable, None, 2-point, 3-point} x optional gradient scaler; no update function; plus objectives with a restricted domain (quadratic + log barrier, NaN or +inf outside, start inside, box not necessarily protecting the domain). The harness recomputes f at clip(x0), at every callback iterate and at result.x. "
    "non-trivial = >=1 iteration and some line search of the run returned None, hit its evaluation cap, or used >=2 trials (so the accepted trial need not be the last); distinct = distinct run spec; a fifth of the problems are also translated far from the origin (x -> x+T, |T| = 1e2..1e6: bounds and iterates of large magnitude compared with the box)"
)
ASSUMPTIONS = ["the harness objective is a pure function, so recomputed values are the values the solver saw"]


@contextmanager
def watch_linesearch(tr_holder):
    import lbfgsb.main as M

    orig = getattr(M, "line_search", None)
    log = []
    if orig is not None:
        def wrapper(*a, **k):
            sf = a[9] if len(a) > 9 else k.get("sf")
            cap = a[13] if len(a) > 13 else k.get("max_iter")
            n0 = sf.nfev if sf is not None else None
            out = orig(*a, **k)
            log.append({"ret": out, "evals": (sf.nfev - n0) if sf is not None else None, "cap": cap})
            return out

        M.line_search = wrapper
    try:
        yield log
    finally:
        if orig is not None:
            M.line_search = orig


def check(rspec, stats=None):
    prob = build(rspec["problem"])
    barrier = rspec["problem"]["obj"]["family"] == "barrier"
    with watch_linesearch(None) as lslog:
        # an objective with a restricted domain answers NaN / +inf outside it: the solver has to cope with such trial values
        tr = execute(rspec, prob=prob, callback="passive", **({"check_finite": False} if barrier else {}))
    if tr.exc is not None:
        if stats is not None:
            stats.bump("exception:" + type(tr.exc).__name__)
            stats.case(rspec, False, ["outcome=exception"])
        return
    f = prob.obj.f
    x_start = np.clip(prob.x0, prob.lb, prob.ub)
    pts = [("x0", x_start)] + [(f"callback#{i}(nit={c['snap']['nit']})", c["xk"]) for i, c in enumerate(tr.cb)] + [("result", tr.res["x"])]
    vals = [float(f(p)) for _, p in pts]
    for k in range(1, len(pts)):
        if not np.all(np.isfinite([vals[k - 1], vals[k]])):
            if barrier and np.isfinite(vals[0]):
                raise Violation("objective-non-increasing",
                                f"f({pts[k][0]})={vals[k]!r} after f({pts[k - 1][0]})={vals[k - 1]!r}: an accepted iterate lies outside the domain of the objective (start value {vals[0]!r}); message={tr.res['message']!r}")
            raise Discard("non-finite objective on the trajectory")
        if vals[k] > vals[k - 1]:
            raise Violation("objective-non-increasing",
                            f"f({pts[k][0]})={vals[k]!r} > f({pts[k - 1][0]})={vals[k - 1]!r} (increase {vals[k] - vals[k - 1]:.3e}); message={tr.res['message']!r} maxls={rspec['cfg']['maxls']} maxfun={rspec['cfg']['maxfun']}")
        if not np.array_equal(pts[k][1], pts[k - 1][1]) and not (vals[k] < vals[k - 1]):
            raise Violation("move-implies-strict-decrease",
                            f"{pts[k][0]} differs from {pts[k - 1][0]} but f is not lower ({vals[k]!r} vs {vals[k - 1]!r})")
    # the solver's own reported values
    rep = [c["snap"]["fun"] for c in tr.cb] + [tr.res["fun"]]
    for k in range(1, len(rep)):
        require(rep[k] <= rep[k - 1], "reported-fun-non-increasing", f"state.fun sequence {rep[k - 1]!r} -> {rep[k]!r}")
    s = 1.0
    if "scaler" in rspec and tr.scaler_calls:
        s = None
    if s is not None and tr.res["njev"] >= 1:
        require(tr.res["fun"] <= vals[0], "result-not-worse-than-start", f"result.fun={tr.res['fun']!r} > f(x0)={vals[0]!r}")
    require(vals[-1] <= vals[0], "result-not-worse-than-start", f"f(result.x)={vals[-1]!r} > f(x0)={vals[0]!r}")
    if stats is not None:
        nit = tr.res["nit"]
        hard = [e for e in lslog if e["ret"] is None or (e["evals"] is not None and e["cap"] is not None and e["evals"] >= e["cap"]) or (e["evals"] or 0) >= 2]
        none_ret = sum(1 for e in lslog if e["ret"] is None)
        capped = sum(1 for e in lslog if e["ret"] is not None and e["evals"] is not None and e["cap"] is not None and e["evals"] >= e["cap"])
        stats.case(rspec, nit >= 1 and len(hard) > 0,
                   [f"msg={tr.res['message'][:28]}", f"ls_none={'0' if none_ret == 0 else '1+'}", f"ls_capped={'0' if capped == 0 else '1+'}",
                    f"jac={rspec['jac']}", f"nit={'0' if nit == 0 else '1-5' if nit <= 5 else '6+'}"])


@st.composite
def barrier_strategy(draw):
    """Objectives with a restricted domain (log barrier): NaN or +inf outside; the start is inside, the box may or may not
    keep the iterates inside."""
    from vf.specs import grid, loggrid, sgrid, vec

    r = draw(run_spec(families=("boxqp",), n_max=6, jac_modes=("callable",), maxiter=(1, 40), maxfun=(1, 120), small_ls=True, ftols=(0.0, 1e-12, 1e-5), gtols=(1e-8, 1e-5),
                      allow_degenerate=False))
    p = r["problem"]
    n = p["obj"]["n"]
    x0 = [min(max(x, -1e300 if l is None else l), 1e300 if u is None else u) for x, l, u in zip(p["x0"], p["lb"], p["ub"])]
    l = [x - draw(loggrid(-2.0, 0.5, 10)) for x in x0]
    p["obj"] = {"family": "barrier", "n": n, "a": draw(vec(sgrid(4.0, 40), n)), "l": l, "mu": draw(loggrid(-3, 1, 16)), "outside": draw(st.sampled_from(["nan", "inf"]))}
    return r


def strategy():
    return run_spec(families=ALL_FAMILIES, n_max=10, jac_modes=("callable", "callable", "callable", None, "2-point", "3-point"),
                    maxiter=(1, 40), maxfun=(1, 120), small_ls=True, units=True, shift=True, extras=True, ftols=(0.0, 1e-12, 1e-5), gtols=(1e-8, 1e-6, 1e-5),
                    allow_degenerate=False, with_scaler=True)


def shard(ctx):
    ctx.hyp("runs", strategy(), check, ctx.pick(8000, 200000))
    ctx.hyp("restricted-domain", barrier_strategy(), check, ctx.pick(2500, 40000))


def replay(spec):
    check(spec, None)
