"""CLI:  python -m vf.runner <ID> [--tier quick|thorough] [--replay FILE] [--shards N]

Exit status: 0 property held on everything explored (KNOWN-FINDING lines allowed),
1 at least one `VIOLATION property=<ID> replay=<path>` line was printed,
2 harness error (never a verdict).
"""

from __future__ import annotations

import argparse
import importlib
import json
import multiprocessing as mp
import os
import sys
import time
import traceback
from collections import Counter

HERE = os.path.dirname(os.path.dirname(os.path.abspath(__file__)))


def _setup_repo_path() -> str:
    repo = os.environ.get("LBFGSB_REPO", "/repo")
    sys.path.insert(0, repo)
    import lbfgsb  # noqa

    got = os.path.realpath(os.path.dirname(os.path.dirname(lbfgsb.__file__)))
    if got != os.path.realpath(repo):
        print(f"HARNESS-ERROR: lbfgsb imported from {got}, expected {repo}", file=sys.stderr)
        sys.exit(2)
    return repo


def _load_known() -> list:
    p = os.path.join(HERE, "known_findings.json")
    if not os.path.exists(p):
        return []
    with open(p) as fh:
        data = json.load(fh)
    return [e for e in data.get("findings", []) if e.get("status", "open") == "open"]


def _start_linecov():
    """Optional (VERIF_LINECOV=<dir>): record which lines of the package the generated cases execute
    (sys.monitoring, each location reported once, so the overhead is negligible).  Diagnostic only --
    it measures what the generators reach; it decides nothing."""
    d = os.environ.get("VERIF_LINECOV")
    if not d or not hasattr(sys, "monitoring"):
        return None
    mon = sys.monitoring
    tool = mon.COVERAGE_ID
    try:
        mon.use_tool_id(tool, "vf-linecov")
    except ValueError:
        pass
    hits = set()
    root = os.path.join(os.environ.get("LBFGSB_REPO", "/repo"), "lbfgsb") + os.sep

    def on_line(code, line):
        fn = code.co_filename
        if fn.startswith(root):
            hits.add((fn[len(root):], line))
        return mon.DISABLE

    mon.register_callback(tool, mon.events.LINE, on_line)
    mon.set_events(tool, mon.events.LINE)
    return hits


def _dump_linecov(hits, prop, shard):
    if hits is None:
        return
    d = os.environ["VERIF_LINECOV"]
    os.makedirs(d, exist_ok=True)
    with open(os.path.join(d, f"{prop}-{shard}.json"), "w") as fh:
        json.dump(sorted(hits), fh)


def _worker(args):
    prop, tier, seed, shard, nshards = args
    from vf.core import Ctx, HarnessError

    t0 = time.time()
    import warnings

    import numpy as np

    warnings.simplefilter("ignore")
    np.seterr(all="ignore")
    cov = _start_linecov()
    try:
        mod = importlib.import_module(f"vf.props.{prop.lower()}")
        ctx = Ctx(prop, tier, seed, shard, nshards, _load_known())
        mod.shard(ctx)
        res = ctx.result()
        _dump_linecov(cov, prop, shard)
        res["wall_s"] = time.time() - t0
        return res
    except HarnessError as e:
        return {"shard": shard, "harness_error": str(e)}
    except BaseException as e:  # noqa
        return {"shard": shard, "harness_error": "".join(traceback.format_exception(type(e), e, e.__traceback__))}


def main() -> int:
    ap = argparse.ArgumentParser()
    ap.add_argument("prop")
    ap.add_argument("--tier", default=None, choices=["quick", "thorough"])
    ap.add_argument("--replay", default=None)
    ap.add_argument("--shards", type=int, default=None)
    a = ap.parse_args()
    prop = a.prop.upper()
    tier = a.tier or os.environ.get("VERIF_TIER") or "quick"
    if tier not in ("quick", "thorough"):
        tier = "quick"
    try:
        seed = int(os.environ.get("VERIF_SEED", "1"))
    except ValueError:
        seed = 1
    repo = _setup_repo_path()
    t0 = time.time()
    import warnings

    import numpy as np

    warnings.simplefilter("ignore")
    np.seterr(all="ignore")

    try:
        mod = importlib.import_module(f"vf.props.{prop.lower()}")
    except Exception:
        traceback.print_exc()
        print(f"HARNESS-ERROR: cannot import check for {prop}", file=sys.stderr)
        return 2

    from vf.core import Violation, jsonable

    # ---------------- replay of one file ----------------
    if a.replay:
        with open(a.replay) as fh:
            rp = json.load(fh)
        try:
            mod.replay(rp["spec"])
        except Violation as v:
            print(f"replayed: clause={v.clause} {v.detail}")
            print(f"VIOLATION property={prop} replay={a.replay}")
            return 1
        except Exception as e:
            from vf.core import Discard, exception_to_violation

            if isinstance(e, Discard):
                print(f"replay {a.replay}: case discarded by the harness ({e})")
                return 0
            v = exception_to_violation(e)
            print(f"replayed: clause={v.clause} {v.detail}")
            print(f"VIOLATION property={prop} replay={a.replay}")
            return 1
        print(f"replay {a.replay}: property {prop} holds on this input")
        return 0

    known = _load_known()
    violations = []  # (clause, detail, spec, origin)
    known_lines = []

    # ---------------- regression tier: committed replays ----------------
    rdir = os.path.join(HERE, "replays", prop)
    n_replayed = 0
    if os.path.isdir(rdir):
        for fn in sorted(os.listdir(rdir)):
            if not fn.endswith(".json"):
                continue
            with open(os.path.join(rdir, fn)) as fh:
                rp = json.load(fh)
            n_replayed += 1
            try:
                mod.replay(rp["spec"])
            except Violation as v:
                kn = [k for k in known if k.get("property") == prop and k.get("replay") == fn]
                if kn:
                    known_lines.append(f"KNOWN-FINDING: property={prop} {kn[0].get('what')}")
                else:
                    violations.append({"clause": v.clause, "detail": v.detail, "spec": rp["spec"], "test": "replay:" + fn})
            except Exception as e:
                from vf.core import Discard, HarnessError, exception_to_violation

                if isinstance(e, Discard):
                    continue
                try:
                    v = exception_to_violation(e)
                except HarnessError:
                    traceback.print_exc()
                    print(f"HARNESS-ERROR: replay {fn} crashed", file=sys.stderr)
                    return 2
                violations.append({"clause": v.clause, "detail": v.detail, "spec": rp["spec"], "test": "replay:" + fn})

    # ---------------- generated search, sharded ----------------
    nshards = a.shards or int(os.environ.get("VERIF_SHARDS", "16"))
    jobs = [(prop, tier, seed, i, nshards) for i in range(nshards)]
    if nshards == 1:
        results = [_worker(jobs[0])]
    else:
        ctxm = mp.get_context("fork")
        with ctxm.Pool(min(nshards, os.cpu_count() or 1)) as pool:
            results = pool.map(_worker, jobs, chunksize=1)

    herr = [r for r in results if "harness_error" in r]
    if herr:
        for r in herr:
            print(f"HARNESS-ERROR shard {r['shard']}:\n{r['harness_error']}", file=sys.stderr)
        return 2

    # ---------------- merge ----------------
    evaluations = 0
    labels: Counter = Counter()
    discarded: Counter = Counter()
    nontrivial = set()
    samples, nt_samples = [], []
    extra = {}
    exhaustive = {}
    seeds = {}
    for r in results:
        s = r["stats"]
        evaluations += s["evaluations"]
        labels.update(s["labels"])
        discarded.update(s["discarded"])
        nontrivial.update(s["nontrivial"])
        samples.extend(s["samples"])
        nt_samples.extend(s["nt_samples"])
        for k, v in s["extra"].items():
            if k not in extra or v > extra[k]:
                extra[k] = v
        for k, v in s["exhaustive"].items():
            exhaustive[k] = exhaustive.get(k, True) and v
        seeds[str(r["shard"])] = r["seeds"]
        for f in r["failures"]:
            violations.append(f)
        for k in r["known_hits"]:
            known_lines.append(f"KNOWN-FINDING: property={prop} {k.get('what')}")

    # module-level post-processing (e.g. dedicated known-finding probes)
    post = getattr(mod, "post", None)
    if post is not None:
        try:
            for line in post(tier, seed, known) or []:
                known_lines.append(line)
        except Violation as v:
            violations.append({"clause": v.clause, "detail": v.detail, "spec": jsonable(v.spec), "test": "post"})

    # ---------------- report ----------------
    for line in sorted(set(known_lines)):
        print(line)
    seen = set()
    out_dir = os.environ.get("VERIF_REPLAY_OUT") or os.path.join(HERE, "replays", "_new")
    n_viol = 0
    for f in violations:
        if f["clause"] in seen:
            continue
        seen.add(f["clause"])
        n_viol += 1
        os.makedirs(out_dir, exist_ok=True)
        from vf.core import spec_hash

        path = os.path.join(out_dir, f"{prop}-{f['clause'].replace('/', '_').replace(':', '_')[:40]}-{spec_hash(f['spec'])}.json")
        with open(path, "w") as fh:
            json.dump({"property": prop, "clause": f["clause"], "detail": f["detail"], "test": f.get("test"), "spec": f["spec"]}, fh, indent=1)
        print(f"violated clause: {f['clause']} -- {f['detail'][:400]}")
        print(f"VIOLATION property={prop} replay={path}")

    wall = time.time() - t0
    rule = mod.RULE
    cov = {
        "evaluations": int(evaluations),
        "distinct_nontrivial": int(len(nontrivial)),
        "rule": rule,
        "samples": (nt_samples[:4] + samples[:2]) or [{"note": "no case executed"}],
        "labels": dict(sorted(labels.items())),
        "discarded": dict(discarded),
        "diagnostics": extra,
        "replayed_regression_inputs": n_replayed,
        "shards": nshards,
        "shard_seeds": seeds,
        "repo": repo,
    }
    if exhaustive:
        cov["exhaustive_subspaces"] = exhaustive
        if getattr(mod, "EXHAUSTIVE_ONLY", False):
            cov["exhaustive"] = all(exhaustive.values())
    ev = {
        "property_id": prop,
        "tier": tier,
        "seed": seed,
        "level": mod.LEVEL,
        "coverage": cov,
        "assumptions": list(getattr(mod, "ASSUMPTIONS", [])),
        "wall_s": round(wall, 2),
        "violations": n_viol,
    }
    from vf.evidence import write_evidence

    try:
        write_evidence(prop, ev)
    except Exception:
        traceback.print_exc()
        print("HARNESS-ERROR: evidence did not validate", file=sys.stderr)
        return 1 if n_viol else 2
    nt = len(nontrivial)
    print(
        f"{prop} tier={tier} seed={seed}: {evaluations} cases, {nt} distinct non-trivial, "
        f"{sum(discarded.values())} discarded, {n_viol} violated clause(s), {wall:.1f}s"
    )
    return 1 if n_viol else 0


if __name__ == "__main__":
    try:
        rc = main()
    except SystemExit:
        raise
    except BaseException:
        traceback.print_exc()
        print("HARNESS-ERROR: runner crashed", file=sys.stderr)
        rc = 2
    sys.exit(rc)
