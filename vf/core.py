"""Shared infrastructure: violations, statistics, Hypothesis driving, shard contexts.

Nothing in this file knows about a particular property.  A property module
(`vf/props/cNN.py`) exposes

    ID, LEVEL, RULE, ASSUMPTIONS          -- strings / list of strings
    shard(ctx)                            -- run this shard's part of the search
    replay(spec) -> None / raises Violation

and uses `ctx.hyp(...)` for generated search and `ctx.enum(...)` for exhaustive
enumeration.  Every failure is a `Violation(clause, detail)` raised from the
case body with the JSON-able spec of the case attached by the driver.
"""

from __future__ import annotations

import hashlib
import json
import math
import os
import time
import traceback
from collections import Counter
from typing import Any, Callable, Dict, Iterable, List, Optional

import numpy as np


class Violation(Exception):
    """The property does not hold on a case.  `clause` names the part of the
    property statement that failed (used to bucket root causes)."""

    def __init__(self, clause: str, detail: str = "", spec: Any = None):
        super().__init__(f"{clause}: {detail}")
        self.clause = clause
        self.detail = detail
        self.spec = spec


class Discard(Exception):
    """The *harness's* side of a case is unusable (e.g. its objective returned a
    non-finite value).  Counted, never reported."""

    def __init__(self, why: str):
        super().__init__(why)
        self.why = why


def jsonable(o: Any) -> Any:
    """Convert numpy scalars / arrays / tuples to plain JSON values; non-finite
    floats become strings so that json.dumps(allow_nan=False) works."""
    if isinstance(o, dict):
        return {str(k): jsonable(v) for k, v in o.items()}
    if isinstance(o, (list, tuple)):
        return [jsonable(v) for v in o]
    if isinstance(o, np.ndarray):
        return jsonable(o.tolist())
    if isinstance(o, (np.floating,)):
        o = float(o)
    if isinstance(o, (np.integer,)):
        return int(o)
    if isinstance(o, (np.bool_,)):
        return bool(o)
    if isinstance(o, float):
        if math.isnan(o):
            return "nan"
        if math.isinf(o):
            return "inf" if o > 0 else "-inf"
        return o
    if isinstance(o, (bytes,)):
        return o.decode("latin1")
    if isinstance(o, (str, int, bool)) or o is None:
        return o
    return repr(o)


def unjson_float(v: Any) -> float:
    if isinstance(v, str):
        return {"inf": math.inf, "-inf": -math.inf, "nan": math.nan}[v]
    return float(v)


def spec_hash(spec: Any) -> str:
    return hashlib.sha256(
        json.dumps(jsonable(spec), sort_keys=True).encode()
    ).hexdigest()[:16]


def derive_seed(*parts: Any) -> int:
    return int(hashlib.sha256(":".join(str(p) for p in parts).encode()).hexdigest()[:8], 16)


class Stats:
    """Counters of one shard; merged by the parent."""

    MAX_SAMPLES = 4

    def __init__(self) -> None:
        self.evaluations = 0
        self.labels: Counter = Counter()
        self.nontrivial: set = set()
        self.samples: List[Any] = []
        self.nt_samples: List[Any] = []
        self.discarded: Counter = Counter()
        self.extra: Dict[str, Any] = {}
        self.exhaustive: Dict[str, bool] = {}

    def case(self, spec: Any, nontrivial: bool, labels: Iterable[str] = (), sample: Any = None) -> None:
        self.evaluations += 1
        for lab in labels:
            self.labels[lab] += 1
        if nontrivial:
            self.nontrivial.add(spec_hash(spec))
            if len(self.nt_samples) < self.MAX_SAMPLES:
                self.nt_samples.append(jsonable(sample if sample is not None else spec))
        elif len(self.samples) < 2:
            self.samples.append(jsonable(sample if sample is not None else spec))

    def discard(self, why: str) -> None:
        self.discarded[why] += 1

    def bump(self, key: str, n: int = 1) -> None:
        self.labels[key] += n

    def maxi(self, key: str, v: float) -> None:
        """Track the maximum of a diagnostic quantity (e.g. observed deviation)."""
        if v is None or (isinstance(v, float) and math.isnan(v)):
            return
        cur = self.extra.get(key)
        if cur is None or v > cur:
            self.extra[key] = float(v)

    def dump(self) -> Dict[str, Any]:
        return {
            "evaluations": self.evaluations,
            "labels": dict(self.labels),
            "nontrivial": sorted(self.nontrivial),
            "samples": self.samples,
            "nt_samples": self.nt_samples,
            "discarded": dict(self.discarded),
            "extra": self.extra,
            "exhaustive": self.exhaustive,
        }


class Ctx:
    """Per-shard context handed to a property module."""

    def __init__(self, prop: str, tier: str, seed: int, shard: int, nshards: int, known: List[dict]):
        self.prop = prop
        self.tier = tier
        self.seed = seed
        self.shard = shard
        self.nshards = nshards
        self.stats = Stats()
        self.failures: List[dict] = []
        self.known = known
        self.known_hits: List[dict] = []
        self.shard_seeds: Dict[str, int] = {}
        self.shrink_budget_s = 45.0 if tier == "quick" else 240.0

    # -- sizes -----------------------------------------------------------
    def pick(self, quick: Any, thorough: Any) -> Any:
        return quick if self.tier == "quick" else thorough

    def share(self, total: int) -> int:
        """This shard's part of `total` cases."""
        base, rem = divmod(total, self.nshards)
        return base + (1 if self.shard < rem else 0)

    # -- generated search -------------------------------------------------
    def hyp(
        self,
        name: str,
        strategy: Any,
        body: Callable[[Any, Stats], None],
        total: int,
        max_steps: Optional[int] = None,
    ) -> None:
        """Run `body(spec, stats)` on `share(total)` specs drawn from `strategy`
        under Hypothesis with this shard's derived seed.  On failure, Hypothesis
        shrinks (bounded by `shrink_budget_s`) and the smallest failing spec seen is
        recorded; the search for *this* test stops (Hypothesis semantics), other
        tests and shards go on."""
        import hypothesis
        from hypothesis import HealthCheck, Phase, given, settings

        n = self.share(total)
        if n <= 0:
            return
        sd = derive_seed(self.seed, self.prop, self.tier, name, self.shard)
        self.shard_seeds[name] = sd
        state = {"best": None, "clause": None, "others": {}, "first_t": None, "n_fail": 0}
        stats = self.stats

        def wrapped(spec: Any) -> None:
            if state["first_t"] is not None and time.monotonic() - state["first_t"] > self.shrink_budget_s:
                # Shrink budget used up: make every further candidate "pass" so that
                # Hypothesis winds down.  Only shrink *effort* depends on the clock;
                # the verdict (a failure was found) is already fixed.
                return
            try:
                body(spec, stats)
            except Discard as d:
                stats.discard(d.why)
                return
            except Violation as v:
                v.spec = spec
                if self._note_fail(state, spec, v.clause, v.detail):
                    raise
                return
            except hypothesis.errors.HypothesisException:
                raise
            except Exception as e:  # unexpected exception from the code under test
                v = exception_to_violation(e)
                if self._note_fail(state, spec, v.clause, v.detail):
                    v.spec = spec
                    raise v from e
                return

        phases = [Phase.explicit, Phase.generate, Phase.shrink]
        st_settings = settings(
            max_examples=n,
            database=None,
            deadline=None,
            derandomize=False,
            report_multiple_bugs=False,
            phases=phases,
            suppress_health_check=[HealthCheck.too_slow, HealthCheck.data_too_large, HealthCheck.large_base_example],
            print_blob=False,
        )
        test = hypothesis.seed(sd)(st_settings(given(strategy)(wrapped)))
        try:
            test()
        except Violation:
            pass
        except HarnessError:
            raise
        except hypothesis.errors.Flaky:
            pass  # shrink wind-down (see `wrapped`)
        except hypothesis.errors.FailedHealthCheck as e:
            raise HarnessError(f"health check failed in {self.prop}/{name}: {e}")
        except hypothesis.errors.HypothesisException as e:
            if state["best"] is None:
                raise HarnessError(f"hypothesis error in {self.prop}/{name}: {e!r}")
        if state["best"] is not None:
            b = state["best"]
            self._record_failure(name, b["spec"], b["clause"], b["detail"], state["n_fail"])
        for b in state["others"].values():
            self._record_failure(name, b["spec"], b["clause"], b["detail"], 1)

    # -- stateful (model-based) search ---------------------------------------
    def machine(self, name: str, make_machine: Callable[[dict, "Stats"], Any], total: int, steps: int) -> None:
        """`make_machine(state, stats)` returns a RuleBasedStateMachine subclass whose rules
        append to their own operation log and call `state['note'](ops, violation)` before
        re-raising a Violation, so that the shrunk operation sequence becomes the replay spec."""
        import hypothesis
        from hypothesis import HealthCheck, Phase, settings
        from hypothesis.stateful import run_state_machine_as_test

        n = self.share(total)
        if n <= 0:
            return
        sd = derive_seed(self.seed, self.prop, self.tier, name, self.shard)
        self.shard_seeds[name] = sd
        state = {"best": None, "clause": None, "others": {}, "first_t": None, "n_fail": 0}

        def note(spec, v):
            return self._note_fail(state, spec, v.clause, v.detail)

        def budget_left():
            return state["first_t"] is None or time.monotonic() - state["first_t"] <= self.shrink_budget_s

        state["note"] = note
        state["budget_left"] = budget_left
        M = make_machine(state, self.stats)
        st_settings = settings(
            max_examples=n, stateful_step_count=steps, database=None, deadline=None, derandomize=False, report_multiple_bugs=False,
            phases=[Phase.generate, Phase.shrink],
            suppress_health_check=[HealthCheck.too_slow, HealthCheck.data_too_large, HealthCheck.large_base_example, HealthCheck.filter_too_much],
            print_blob=False,
        )
        import contextlib
        import io

        try:
            with contextlib.redirect_stdout(io.StringIO()):  # hypothesis prints the failing steps; the replay file is our record
                run_state_machine_as_test(hypothesis.seed(sd)(M), settings=st_settings)
        except Violation:
            pass
        except HarnessError:
            raise
        except hypothesis.errors.Flaky:
            pass
        except hypothesis.errors.HypothesisException as e:
            if state["best"] is None:
                raise HarnessError(f"hypothesis error in {self.prop}/{name}: {e!r}")
        if state["best"] is not None:
            b = state["best"]
            self._record_failure(name, b["spec"], b["clause"], b["detail"], state["n_fail"])
        for b in state["others"].values():
            self._record_failure(name, b["spec"], b["clause"], b["detail"], 1)

    def _note_fail(self, state: dict, spec: Any, clause: str, detail: str) -> bool:
        """Record a failing case.  Returns True if it belongs to the clause being
        shrunk (the first one seen by this test): only then is the exception
        propagated to Hypothesis, so that shrinking cannot drift from one root
        cause to another.  Failures of other clauses are kept unshrunk, one each."""
        state["n_fail"] += 1
        # a failing case is an executed, non-trivial case
        self.stats.evaluations += 1
        self.stats.nontrivial.add(spec_hash(spec))
        self.stats.labels["failing-cases-incl-shrinking"] += 1
        if state["first_t"] is None:
            state["first_t"] = time.monotonic()
        if state["clause"] is None:
            state["clause"] = clause
        if clause != state["clause"]:
            state["others"].setdefault(clause, {"spec": jsonable(spec), "clause": clause, "detail": detail})
            return False
        # every failing candidate Hypothesis executes after the first is smaller in its
        # order than the previous best, and the minimal one is replayed last
        state["best"] = {"spec": jsonable(spec), "clause": clause, "detail": detail}
        return True

    def _record_failure(self, test: str, spec: Any, clause: str, detail: str, n_fail: int = 1) -> None:
        for k in self.known:
            if k.get("property") == self.prop and k.get("clause") == clause and _match_known(k, spec):
                self.known_hits.append({"id": k.get("id"), "what": k.get("what"), "spec": spec})
                return
        self.failures.append(
            {"test": test, "clause": clause, "detail": detail, "spec": spec, "failing_cases_seen": n_fail}
        )

    # -- exhaustive enumeration ------------------------------------------
    def enum(self, name: str, items: Iterable[Any], body: Callable[[Any, Stats], None], max_fail: int = 3) -> None:
        """Run body on every `nshards`-th item (this shard's slice).  Up to
        `max_fail` failures per clause are recorded; enumeration goes on."""
        per_clause: Counter = Counter()
        for i, item in enumerate(items):
            if i % self.nshards != self.shard:
                continue
            try:
                body(item, self.stats)
            except Discard as d:
                self.stats.discard(d.why)
            except (Violation, Exception) as e:
                if isinstance(e, HarnessError):
                    raise
                v = e if isinstance(e, Violation) else exception_to_violation(e)
                per_clause[v.clause] += 1
                if per_clause[v.clause] <= max_fail:
                    spec = v.spec if v.spec is not None else item
                    self._record_failure(name, jsonable(spec), v.clause, v.detail)
        self.stats.exhaustive[name] = True

    def direct(self, name: str, spec: Any, body: Callable[[Any, Stats], None]) -> None:
        try:
            body(spec, self.stats)
        except Discard as d:
            self.stats.discard(d.why)
        except Violation as v:
            self._record_failure(name, jsonable(v.spec if v.spec is not None else spec), v.clause, v.detail)

    def result(self) -> dict:
        return {
            "shard": self.shard,
            "stats": self.stats.dump(),
            "failures": self.failures,
            "known_hits": self.known_hits,
            "seeds": self.shard_seeds,
        }


class HarnessError(Exception):
    pass


def exception_to_violation(e: BaseException) -> Violation:
    """An exception that is neither Violation nor Discard escaped from a case body.  If its
    innermost frame lies in the code under test (or in a library it called) it is a finding
    ("unexpected-exception:<Type>"); if the harness itself broke it is a HarnessError."""
    detail = "".join(traceback.format_exception_only(type(e), e)).strip()
    tb = traceback.extract_tb(e.__traceback__)
    where = ""
    for fr in reversed(tb):
        if "/lbfgsb/" in fr.filename:
            where = f" at {os.path.basename(fr.filename)}:{fr.lineno}"
            break
    if not where and tb:
        fr = tb[-1]
        where = f" at {os.path.basename(fr.filename)}:{fr.lineno}"
        if "/vf/" in fr.filename:
            raise HarnessError(f"{detail}{where}\n" + "".join(traceback.format_tb(e.__traceback__)))
    return Violation("unexpected-exception:" + type(e).__name__, detail + where)


def _match_known(k: dict, spec: Any) -> bool:
    m = k.get("match")
    if not m:
        return True
    try:
        for path, want in m.items():
            cur = spec
            for p in path.split("."):
                cur = cur[p] if not p.isdigit() else cur[int(p)]
            if cur != want:
                return False
        return True
    except Exception:
        return False


def require(cond: bool, clause: str, detail: str = "") -> None:
    if not cond:
        raise Violation(clause, detail)
