"""Instrumented runs of minimize_lbfgsb: logging closures, deep-copied callback
states, fault hooks, optional interception of module-level components."""

from __future__ import annotations

import copy
import threading
from contextlib import contextmanager
from typing import Any, Callable, Dict, List, Optional

import numpy as np

from vf.core import Discard
from vf.specs import Problem

DOCUMENTED_MESSAGES = (
    "CONVERGENCE: NORM_OF_PROJECTED_GRADIENT_<=_PGTOL",
    "CONVERGENCE: REL_REDUCTION_OF_F_<=_FTOL",
    "CONVERGENCE: F_<=_TARGET",
    "STOP: TOTAL NO. of ITERATIONS REACHED LIMIT",
    "STOP: TOTAL NO. of f AND g EVALUATIONS EXCEEDS LIMIT",
    "STOP: USER CALLBACK",
    "ABNORMAL_TERMINATION_IN_LNSRCH",
)
MSG_PGTOL, MSG_FTOL, MSG_TARGET, MSG_ITER, MSG_EVAL, MSG_CALLBACK, MSG_ABNORMAL = DOCUMENTED_MESSAGES


class InjectedFault(Exception):
    """Custom exception type used for fault injection."""


def snapshot_state(state) -> Dict[str, Any]:
    """Deep copy of the fields of an OptimizeResult that the properties talk about."""
    return {
        "x": np.array(state.x, dtype=float, copy=True),
        "fun": float(state.fun),
        "jac": np.array(state.jac, dtype=float, copy=True),
        "nfev": int(state.nfev),
        "njev": int(state.njev),
        "nit": int(state.nit),
        "sk": np.array(state.hess_inv.sk, dtype=float, copy=True),
        "yk": np.array(state.hess_inv.yk, dtype=float, copy=True),
        "message": str(state.message),
        "success": bool(state.success),
        "status": int(state.status),
    }


def states_equal(a: Dict[str, Any], b: Dict[str, Any], fields=("x", "fun", "jac", "nfev", "njev", "nit", "sk", "yk")) -> Optional[str]:
    """None if bit-identical on `fields`, else the name of the first differing field."""
    for k in fields:
        va, vb = a[k], b[k]
        if isinstance(va, np.ndarray):
            if va.shape != vb.shape or not np.array_equal(va, vb, equal_nan=True):
                return k
        elif isinstance(va, float):
            if not (va == vb or (va != va and vb != vb)):
                return k
        elif va != vb:
            return k
    return None


class Trace:
    def __init__(self) -> None:
        self.fun_calls: List[tuple] = []  # (x copy, value)
        self.jac_calls: List[tuple] = []  # (x copy, gradient copy)
        self.events: List[tuple] = []  # ('f'|'g'|'cb'|'upd'|'scaler'|'ftarget'|'gtol', index)
        self.cb: List[Dict[str, Any]] = []  # {"xk", "xk_live", "snap", "live", "ret"}
        self.upd_calls: List[Dict[str, Any]] = []
        self.scaler_calls: List[Dict[str, Any]] = []
        self.ftarget_calls = 0
        self.gtol_calls = 0
        self.result = None
        self.res: Optional[Dict[str, Any]] = None  # snapshot of the result
        self.exc: Optional[BaseException] = None
        self.kwargs: Dict[str, Any] = {}
        self.intercepted: Dict[str, List[Any]] = {}
        self.user_array_modified = 0  # times the library wrote into an array owned by the user's jac
        self.bad_args = 0  # calls of fun/jac that did not receive exactly the `args` tuple given to the solver

    @property
    def nf(self) -> int:
        return len(self.fun_calls)

    @property
    def ng(self) -> int:
        return len(self.jac_calls)


def make_closures(
    prob: Problem,
    tr: Trace,
    *,
    fault: Optional[Dict[str, Any]] = None,
    obj=None,
    check_finite: bool = True,
    gate: Optional[Callable[[str], None]] = None,
    jac_style: str = "fresh",
    fun_style: str = "scalar",
):
    """fun/jac closures over the harness's objective that log every call.
    fault = {"kind": "fun"|"jac", "index": j, "exc": exception instance} raises at the j-th call (0-based)."""
    holder = {"obj": obj if obj is not None else prob.obj}

    def fun(x, *args):
        i = len(tr.fun_calls)
        if tuple(args) != tuple(holder.get("args", ())):
            tr.bad_args += 1
        if gate is not None:
            gate("f")
        if fault is not None and fault["kind"] == "fun" and fault["index"] == i:
            tr.fun_calls.append((np.array(x, copy=True), None))
            raise fault["exc"]
        xv = np.array(x, copy=True)
        v = holder["obj"].f(np.real(xv) if np.iscomplexobj(xv) and not holder["obj"].analytic else xv)
        tr.fun_calls.append((xv, v))
        tr.events.append(("f", i))
        if check_finite and not np.all(np.isfinite(np.real(v))):
            raise Discard("harness objective non-finite")
        # a value handed back as a one-element or zero-dimensional array (x @ A @ x + c[None], np.sum(..., keepdims=True), ...)
        # is what many user objectives return; the package documents that it is converted to a scalar
        if fun_style == "array1" and not np.iscomplexobj(v):
            return np.array([v], dtype=float)
        if fun_style == "array0" and not np.iscomplexobj(v):
            return np.array(v, dtype=float)
        return v

    def jac(x, *args):
        i = len(tr.jac_calls)
        if tuple(args) != tuple(holder.get("args", ())):
            tr.bad_args += 1
        if gate is not None:
            gate("g")
        if fault is not None and fault["kind"] == "jac" and fault["index"] == i:
            tr.jac_calls.append((np.array(x, copy=True), None))
            raise fault["exc"]
        xv = np.array(x, copy=True)
        gv = holder["obj"].g(xv)
        tr.jac_calls.append((xv, np.array(gv, copy=True)))
        tr.events.append(("g", i))
        if check_finite and not np.all(np.isfinite(gv)):
            raise Discard("harness gradient non-finite")
        if jac_style == "buffer":
            # a legal user pattern: the gradient is written into a preallocated work array that is
            # returned every time.  The library must neither keep a reference to it as if it were its
            # own nor modify it: the harness checks on every call that nobody else wrote into it.
            buf = holder.get("buf")
            if buf is None:
                buf = holder["buf"] = np.empty(np.shape(gv), dtype=float)
            elif holder.get("buf_last") is not None and not np.array_equal(buf, holder["buf_last"]):
                tr.user_array_modified += 1
            buf[...] = gv
            holder["buf_last"] = np.array(gv, copy=True)
            return buf
        return gv

    return fun, jac, holder


def run_min(
    prob: Problem,
    cfg: Dict[str, Any],
    *,
    jac_mode: Any = "callable",
    callback: Any = None,  # None | "passive" | list of bools (schedule) | callable(xk, state, i) -> bool
    fault: Optional[Dict[str, Any]] = None,
    checkpoint: Any = None,
    x0: Any = None,
    bounds: Any = "default",
    update_fun_def: Any = None,
    scaler: Any = None,  # None | float | "unit" | callable
    ftarget: Any = None,  # None | float | ("callable", value)
    gtol_callable: bool = False,
    obj=None,
    extra: Optional[Dict[str, Any]] = None,
    catch: bool = True,
    gate=None,
    trace: Optional[Trace] = None,
    jac_style: str = "fresh",
    fun_style: str = "scalar",
    check_finite: bool = True,
) -> Trace:
    import lbfgsb

    tr = trace if trace is not None else Trace()
    fun, jac, holder = make_closures(prob, tr, fault=fault, obj=obj, gate=gate, jac_style=jac_style, fun_style=fun_style, check_finite=check_finite)
    tr.holder = holder
    kw: Dict[str, Any] = {}
    kw["x0"] = np.array(prob.x0, copy=True) if x0 is None else x0
    kw["fun"] = fun
    if jac_mode == "callable":
        kw["jac"] = jac
    else:
        kw["jac"] = jac_mode  # None, '2-point', '3-point', 'cs'
    if isinstance(bounds, str) and bounds == "default":
        kw["bounds"] = None if prob.unbounded and cfg.get("bounds_none", False) else np.array(prob.bounds, copy=True)
    else:
        kw["bounds"] = bounds
    for k in ("maxcor", "maxiter", "maxfun", "maxls", "ftol", "gtol", "eps", "finite_diff_rel_step", "iprint",
              "max_steplength", "ftol_linesearch", "gtol_linesearch", "xtol_linesearch", "eps_SY", "logger"):
        if k in cfg:
            kw[k] = cfg[k]
    if extra:
        kw.update(extra)
    if "args" in kw:
        holder["args"] = tuple(kw["args"])
    if isinstance(kw.get("eps"), list):
        kw["eps"] = np.array(kw["eps"], dtype=float)
    if isinstance(kw.get("finite_diff_rel_step"), list):
        kw["finite_diff_rel_step"] = np.array(kw["finite_diff_rel_step"], dtype=float)
    if checkpoint is not None:
        kw["checkpoint"] = checkpoint

    # --- stop-criterion callables
    if ftarget is not None:
        if isinstance(ftarget, tuple):
            val = ftarget[1]

            def _ft():
                tr.ftarget_calls += 1
                tr.events.append(("ftarget", tr.ftarget_calls - 1))
                if fault is not None and fault["kind"] == "ftarget":
                    raise fault["exc"]
                return val

            kw["ftarget"] = _ft
        else:
            kw["ftarget"] = ftarget
    if gtol_callable:
        gval = kw.get("gtol", 1e-5)

        def _gt():
            tr.gtol_calls += 1
            tr.events.append(("gtol", tr.gtol_calls - 1))
            if fault is not None and fault["kind"] == "gtol":
                raise fault["exc"]
            return gval

        kw["gtol"] = _gt

    # --- scaler
    if scaler is not None:
        def _sc(x, g, lb, ub):
            i = len(tr.scaler_calls)
            tr.scaler_calls.append({"x": np.array(x, copy=True), "g": np.array(g, copy=True),
                                    "lb": np.array(lb, copy=True), "ub": np.array(ub, copy=True)})
            tr.events.append(("scaler", i))
            if fault is not None and fault["kind"] == "scaler" and fault["index"] == i:
                raise fault["exc"]
            if scaler == "unit":
                return lbfgsb.get_gradient_projection_unit_scaling(x, g, lb, ub)
            if callable(scaler):
                return scaler(x, g, lb, ub)
            return float(scaler)

        kw["gradient_scaler"] = _sc

    # --- callback
    if callback is not None:
        def _cb(xk, state):
            i = len(tr.cb)
            tr.events.append(("cb", i))
            if fault is not None and fault["kind"] == "callback" and fault["index"] == i:
                tr.cb.append({"xk": np.array(xk, copy=True), "xk_live": xk, "snap": snapshot_state(state), "live": state, "ret": None,
                              "nf": len(tr.fun_calls), "ng": len(tr.jac_calls)})
                raise fault["exc"]
            if callback == "passive":
                ret = False
            elif isinstance(callback, (list, tuple)):
                ret = bool(callback[i]) if i < len(callback) else False
            else:
                ret = callback(xk, state, i)
            tr.cb.append({"xk": np.array(xk, copy=True), "xk_live": xk, "snap": snapshot_state(state), "live": state, "ret": ret,
                          "nf": len(tr.fun_calls), "ng": len(tr.jac_calls)})
            return ret

        kw["callback"] = _cb

    # --- update function
    if update_fun_def is not None:
        def _upd(x, f0, f0_old, grad, X, G):
            i = len(tr.upd_calls)
            tr.events.append(("upd", i))
            rec = {"x": np.array(x, copy=True), "f0": f0, "f0_old": f0_old, "grad": np.array(grad, copy=True),
                   "X": [np.array(v, copy=True) for v in X], "G": [np.array(v, copy=True) for v in G],
                   "nf": len(tr.fun_calls), "ng": len(tr.jac_calls), "ncb": len(tr.cb)}
            tr.upd_calls.append(rec)
            if fault is not None and fault["kind"] == "update" and fault["index"] == i:
                raise fault["exc"]
            if update_fun_def == "identity":
                return f0, f0_old, grad, G
            out = update_fun_def(i, x, f0, f0_old, grad, X, G, tr)
            rec["out"] = out
            return out

        kw["update_fun_def"] = _upd

    tr.kwargs = kw
    try:
        res = lbfgsb.minimize_lbfgsb(**kw)
        tr.result = res
        tr.res = snapshot_state(res)
        if jac_style == "buffer" and holder.get("buf") is not None and holder.get("buf_last") is not None:
            if not np.array_equal(holder["buf"], holder["buf_last"]):
                tr.user_array_modified += 1
    except Discard:
        raise
    except BaseException as e:  # noqa
        if not catch:
            raise
        tr.exc = e
    return tr


@contextmanager
def intercept(names=("get_cauchy_point", "subspace_minimization", "update_lbfgs_matrices", "line_search"), store=None, limit=400):
    """Wrap module-level components of lbfgsb.main from outside for the duration of a
    `with` block; records deep copies of inputs and outputs.  Missing attributes are
    skipped (their interception count stays 0)."""
    import lbfgsb.main as M

    rec: Dict[str, List[Any]] = store if store is not None else {}
    saved = {}
    for nm in names:
        orig = getattr(M, nm, None)
        if orig is None:
            continue
        saved[nm] = orig
        rec.setdefault(nm, [])

        def mk(nm=nm, orig=orig):
            def wrapper(*a, **k):
                entry = None
                if len(rec[nm]) < limit:
                    try:
                        entry = {"args": _deepcopy_args(a), "kwargs": dict(k)}
                    except Exception:
                        entry = None
                if entry is not None and nm == "update_lbfgs_matrices":
                    entry["X_before"] = [np.array(v, copy=True) for v in a[2]]
                    entry["G_before"] = [np.array(v, copy=True) for v in a[3]]
                try:
                    out = orig(*a, **k)
                except BaseException as e:  # noqa
                    if entry is not None:
                        entry["exc"] = e
                        rec[nm].append(entry)
                    raise
                if entry is not None:
                    try:
                        entry["out"] = copy.deepcopy(out)
                        if nm == "update_lbfgs_matrices":
                            entry["X_after"] = [np.array(v, copy=True) for v in a[2]]
                            entry["G_after"] = [np.array(v, copy=True) for v in a[3]]
                    except Exception:
                        entry["out"] = out
                    rec[nm].append(entry)
                return out

            return wrapper

        setattr(M, nm, mk())
    try:
        yield rec
    finally:
        for nm, orig in saved.items():
            setattr(M, nm, orig)


def _deepcopy_args(a):
    out = []
    for v in a:
        if isinstance(v, np.ndarray):
            out.append(v.copy())
        elif isinstance(v, (int, float, bool, str, bytes)) or v is None:
            out.append(v)
        elif v.__class__.__name__ in ("ScalarFunction", "Logger"):
            out.append(v)
        else:
            out.append(copy.deepcopy(v))
    return out


def perturbed_checkpoint(ckpt, k: int):
    """Deep copy of a checkpoint whose pairs are changed in the last bits (fixed sign pattern number k).
    Used by the differential oracles as a conditioning probe: if the *reference* continuation moves by more
    than the comparison tolerance under such a perturbation, the comparison is decided by rounding."""
    import copy

    eps = 2.220446049250313e-16
    ck = copy.deepcopy(ckpt)
    sk = np.array(ck.hess_inv.sk, dtype=float, copy=True)
    yk = np.array(ck.hess_inv.yk, dtype=float, copy=True)
    idx = np.arange(sk.size).reshape(sk.shape)
    ck.hess_inv.sk = sk * (1.0 + 2.0 * eps * np.where((idx + k) % 2 == 0, 1.0, -1.0))
    ck.hess_inv.yk = yk * (1.0 + 2.0 * eps * np.where((idx // 2 + k) % 2 == 0, 1.0, -1.0))
    return ck


def continuation_is_well_conditioned(rerun, ckpt, ref_x, tol, patterns: int = 3) -> bool:
    """rerun(checkpoint) -> Trace of the reference continuation started from `checkpoint`.
    False when some 2-ulp perturbation of the pairs moves the reference's own next iterate by more than tol/10
    (or makes a factorisation break down)."""
    if np.asarray(ckpt.hess_inv.sk).size == 0:
        return True
    for k in range(patterns):
        alt = rerun(perturbed_checkpoint(ckpt, k))
        if alt.exc is not None:
            if isinstance(alt.exc, np.linalg.LinAlgError):
                return False
            continue  # anything else is not evidence of ill-conditioning: keep judging
        if alt.res["x"].shape != np.shape(ref_x) or float(np.max(np.abs(alt.res["x"] - ref_x))) > 0.1 * tol:
            return False
    return True
