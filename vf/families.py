"""Objective families with exact gradients, built purely from a JSON-able spec.

Every objective offers
    f(x) -> float           value (accepts complex x when `analytic`)
    g(x) -> ndarray         exact gradient
    fmag(x) -> float        sum of absolute values of the terms f adds up (rounding scale)
    curv(x) -> float        upper bound of the largest Hessian eigenvalue at x (convex families)
"""

from __future__ import annotations

import math
from typing import Any, Dict, List

import numpy as np


def householder_Q(vs: List[List[float]], n: int) -> np.ndarray:
    Q = np.eye(n)
    for v in vs:
        v = np.asarray(v, dtype=float)
        nv = float(v @ v)
        if nv == 0.0:
            continue
        Q = Q - 2.0 * np.outer(Q @ v, v) / nv
    return Q


def _softplus(x):
    # complex-safe, overflow-safe log(1+exp(x))
    xr = np.real(x)
    pos = xr > 0
    out = np.empty(np.shape(x), dtype=np.result_type(x, float))
    out[pos] = x[pos] + np.log1p(np.exp(-x[pos]))
    out[~pos] = np.log1p(np.exp(x[~pos]))
    return out


def _sigmoid(x):
    out = np.empty_like(x, dtype=float)
    pos = x >= 0
    out[pos] = 1.0 / (1.0 + np.exp(-x[pos]))
    e = np.exp(x[~pos])
    out[~pos] = e / (1.0 + e)
    return out


class Objective:
    convex = False
    analytic = False
    name = "?"

    def __init__(self, n: int):
        self.n = n

    def f(self, x):
        raise NotImplementedError

    def g(self, x):
        raise NotImplementedError

    def fmag(self, x) -> float:
        return abs(float(self.f(x)))

    def curv(self, x) -> float:
        raise NotImplementedError


class ConvexQP(Objective):
    """0.5 x'Ax - b'x  + 1/4 sum cq_i x_i^4 + sum cs_i softplus(x_i)."""

    convex = True
    analytic = True

    def __init__(self, spec: Dict[str, Any]):
        n = spec["n"]
        super().__init__(n)
        self.name = spec["family"]
        lam = np.asarray(spec["lam"], dtype=float)
        Q = householder_Q(spec.get("hv", []), n)
        A = (Q * lam) @ Q.T
        self.A = 0.5 * (A + A.T)
        self.absA = np.abs(self.A)
        self.b = np.asarray(spec["b"], dtype=float)
        self.cq = np.asarray(spec.get("cq", [0.0] * n), dtype=float)
        self.cs = np.asarray(spec.get("cs", [0.0] * n), dtype=float)
        self.has_q = bool(np.any(self.cq != 0))
        self.has_s = bool(np.any(self.cs != 0))
        self.kappa = float(lam.max() / lam.min())
        self.lam_max = float(lam.max())

    def f(self, x):
        x = np.asarray(x)
        v = 0.5 * (x @ (self.A @ x)) - self.b @ x
        if self.has_q:
            v = v + 0.25 * (self.cq @ x**4)
        if self.has_s:
            v = v + self.cs @ _softplus(x)
        if np.iscomplexobj(v):
            return v
        return float(v)

    def g(self, x):
        x = np.asarray(x, dtype=float)
        out = self.A @ x - self.b
        if self.has_q:
            out = out + self.cq * x**3
        if self.has_s:
            out = out + self.cs * _sigmoid(x)
        return out

    def fmag(self, x) -> float:
        x = np.asarray(x, dtype=float)
        ax = np.abs(x)
        v = 0.5 * (ax @ (self.absA @ ax)) + np.abs(self.b) @ ax
        if self.has_q:
            v += 0.25 * (self.cq @ ax**4)
        if self.has_s:
            v += self.cs @ np.abs(_softplus(x))
        return float(v)

    def curv(self, x) -> float:
        x = np.asarray(x, dtype=float)
        L = self.lam_max
        if self.has_q:
            L += float(np.max(3.0 * self.cq * x**2))
        if self.has_s:
            L += 0.25 * float(np.max(self.cs))
        return L


class Rosenbrock(Objective):
    def __init__(self, spec):
        super().__init__(spec["n"])
        self.name = "rosenbrock"
        self.a = float(spec.get("a", 100.0))

    def f(self, x):
        x = np.asarray(x, dtype=float)
        return float(self.a * np.sum((x[1:] - x[:-1] ** 2) ** 2) + np.sum((1.0 - x[:-1]) ** 2))

    def g(self, x):
        x = np.asarray(x, dtype=float)
        g = np.zeros(x.size)
        t = x[1:] - x[:-1] ** 2
        g[1:] += 2.0 * self.a * t
        g[:-1] += -4.0 * self.a * t * x[:-1] - 2.0 * (1.0 - x[:-1])
        return g

    def fmag(self, x):
        x = np.asarray(x, dtype=float)
        return float(self.a * np.sum((np.abs(x[1:]) + x[:-1] ** 2) ** 2) + np.sum((1.0 + np.abs(x[:-1])) ** 2))


class Sines(Objective):
    """q * sum s_i x_i^2 + amp * sum sin(w_i x_i + phi_i)  (oscillating, non-convex)."""

    def __init__(self, spec):
        super().__init__(spec["n"])
        self.name = spec["family"]
        self.s = np.asarray(spec["s"], dtype=float)
        self.w = np.asarray(spec["w"], dtype=float)
        self.phi = np.asarray(spec["phi"], dtype=float)
        self.amp = float(spec["amp"])

    def f(self, x):
        x = np.asarray(x, dtype=float)
        return float(self.s @ x**2 + self.amp * np.sum(np.sin(self.w * x + self.phi)))

    def g(self, x):
        x = np.asarray(x, dtype=float)
        return 2.0 * self.s * x + self.amp * self.w * np.cos(self.w * x + self.phi)

    def fmag(self, x):
        x = np.asarray(x, dtype=float)
        return float(self.s @ x**2 + abs(self.amp) * x.size)


class Bench(Objective):
    """One of the package's own benchmark functions (imported from the tree under test)."""

    def __init__(self, spec):
        super().__init__(spec["n"])
        import lbfgsb

        self.name = "bench:" + spec["bench"]
        self._f = getattr(lbfgsb, spec["bench"])
        self._g = getattr(lbfgsb, spec["bench"] + "_grad")
        # all eight packaged functions are compositions of analytic functions (verified on the pinned tree: the
        # complex-step derivative reproduces the packaged gradient to 1e-12), so jac='cs' is a legal mode for them
        self.analytic = True
        self.convex = spec["bench"] in ("sphere", "quartic")

    def f(self, x):
        if np.iscomplexobj(x):
            return self._f(np.asarray(x))
        return float(self._f(np.asarray(x, dtype=float)))

    def g(self, x):
        return np.asarray(self._g(np.asarray(x, dtype=float)), dtype=float)


class ScaledSphere(Objective):
    """0.5 * sum s_i (x_i - a_i)^2 -- probe family (exact line-search arithmetic known)."""

    convex = True
    analytic = True

    def __init__(self, spec):
        super().__init__(spec["n"])
        self.name = "sphere_probe"
        self.s = np.asarray(spec["s"], dtype=float)
        self.a = np.asarray(spec["a"], dtype=float)

    def f(self, x):
        x = np.asarray(x)
        v = 0.5 * (self.s @ (x - self.a) ** 2)
        return v if np.iscomplexobj(v) else float(v)

    def g(self, x):
        return self.s * (np.asarray(x, dtype=float) - self.a)

    def fmag(self, x):
        return float(self.f(np.asarray(x, dtype=float)))

    def curv(self, x):
        return float(self.s.max())


class SmoothKink(Objective):
    """sum w_i sqrt((x_i-a_i)^2 + delta^2)  + 0.5*mu*|x|^2 : convex, sharply curved near a."""

    convex = True

    def __init__(self, spec):
        super().__init__(spec["n"])
        self.name = "kink"
        self.w = np.asarray(spec["w"], dtype=float)
        self.a = np.asarray(spec["a"], dtype=float)
        self.delta = float(spec["delta"])
        self.mu = float(spec.get("mu", 0.0))

    def f(self, x):
        x = np.asarray(x, dtype=float)
        return float(self.w @ np.sqrt((x - self.a) ** 2 + self.delta**2) + 0.5 * self.mu * (x @ x))

    def g(self, x):
        x = np.asarray(x, dtype=float)
        return self.w * (x - self.a) / np.sqrt((x - self.a) ** 2 + self.delta**2) + self.mu * x

    def curv(self, x):
        return float(self.w.max() / self.delta + self.mu)


class Shifted(Objective):
    """base(x) * scale + 0.5 * lam * |x - c|^2   (used by C13's objective switches)."""

    def __init__(self, base: Objective, scale: float, lam: float, c):
        super().__init__(base.n)
        self.base, self.scale = base, float(scale)
        self.lam = np.asarray(lam, dtype=float)  # scalar or per-coordinate weights
        self.c = np.asarray(c, dtype=float)
        self.name = f"shifted({base.name})"

    def f(self, x):
        x = np.asarray(x, dtype=float)
        return float(self.base.f(x) * self.scale + 0.5 * np.sum(self.lam * (x - self.c) ** 2))

    def g(self, x):
        x = np.asarray(x, dtype=float)
        return self.base.g(x) * self.scale + self.lam * (x - self.c)


class Padded(Objective):
    """base acting on x[idx]; the other variables are ignored by the objective (zero gradient)."""

    def __init__(self, spec):
        super().__init__(spec["n"])
        self.idx = np.asarray(spec["idx"], dtype=int)
        self.base = build_objective(spec["base"])
        self.name = f"padded({self.base.name})"
        self.analytic = self.base.analytic

    def f(self, x):
        return self.base.f(np.asarray(x)[self.idx])

    def g(self, x):
        out = np.zeros(self.n)
        out[self.idx] = self.base.g(np.asarray(x, dtype=float)[self.idx])
        return out

    def fmag(self, x):
        return self.base.fmag(np.asarray(x, dtype=float)[self.idx])


class Barrier(Objective):
    """0.5|x-a|^2 - mu * sum log(x_i - l_i): an objective with a restricted domain (x > l). Outside it the value is NaN
    (what np.log gives) or +inf, as the spec says; the gradient formula is evaluated wherever it is asked for."""

    def __init__(self, spec):
        super().__init__(spec["n"])
        self.name = "barrier"
        self.a = np.asarray(spec["a"], dtype=float)
        self.l = np.asarray(spec["l"], dtype=float)
        self.mu = float(spec["mu"])
        self.outside = float("nan") if spec.get("outside", "nan") == "nan" else float("inf")

    def f(self, x):
        x = np.asarray(x, dtype=float)
        d = x - self.l
        if np.any(d <= 0):
            return self.outside
        return float(0.5 * np.sum((x - self.a) ** 2) - self.mu * np.sum(np.log(d)))

    def g(self, x):
        x = np.asarray(x, dtype=float)
        d = x - self.l
        with np.errstate(all="ignore"):
            return (x - self.a) - self.mu / np.where(d == 0, 1e-300, d)


def build_objective(spec: Dict[str, Any]) -> Objective:
    fam = spec["family"]
    if fam == "padded":
        return Padded(spec)
    if fam in ("boxqp", "qp_quartic", "qp_softplus"):
        return ConvexQP(spec)
    if fam == "rosenbrock":
        return Rosenbrock(spec)
    if fam in ("sines", "badscale"):
        return Sines(spec)
    if fam == "bench":
        return Bench(spec)
    if fam == "sphere_probe":
        return ScaledSphere(spec)
    if fam == "kink":
        return SmoothKink(spec)
    if fam == "barrier":
        return Barrier(spec)
    raise ValueError(f"unknown family {fam}")


BENCH_NAMES = ["ackley", "beale", "griewank", "quartic", "rastrigin", "rosenbrock", "sphere", "styblinski_tang"]
BENCH_MIN_N = {"beale": 2, "rosenbrock": 2}


class Scaled(Objective):
    """s * base, computed exactly as the solver's wrapper does (value * s, gradient * s)."""

    def __init__(self, base: Objective, s: float):
        super().__init__(base.n)
        self.base, self.s = base, float(s)
        self.name = f"scaled({base.name})"
        self.analytic = base.analytic

    def f(self, x):
        return self.base.f(x) * self.s

    def g(self, x):
        return self.base.g(x) * self.s


class Translated(Objective):
    """base(x - T): the same problem in coordinates whose origin is far away (bounds and iterates of large magnitude
    compared with the width of the box and the scale on which the objective varies)."""

    def __init__(self, base: Objective, T: float):
        super().__init__(base.n)
        self.base, self.T = base, float(T)
        self.name = f"translated({base.name})"
        self.convex = base.convex
        self.analytic = base.analytic

    def f(self, x):
        return self.base.f(np.asarray(x) - self.T)

    def g(self, x):
        return self.base.g(np.asarray(x, dtype=float) - self.T)

    def fmag(self, x):
        return self.base.fmag(np.asarray(x, dtype=float) - self.T)

    def curv(self, x):
        return self.base.curv(np.asarray(x, dtype=float) - self.T)


class XScaled(Objective):
    """fs * base(x / xs): the same problem in other units (tiny / huge magnitudes of x, f and g)."""

    def __init__(self, base: Objective, xs: float, fs: float):
        super().__init__(base.n)
        self.base, self.xs, self.fs = base, float(xs), float(fs)
        self.name = f"xscaled({base.name})"
        self.convex = base.convex
        self.analytic = base.analytic

    def f(self, x):
        v = self.base.f(np.asarray(x) / self.xs) * self.fs
        return v

    def g(self, x):
        return self.base.g(np.asarray(x, dtype=float) / self.xs) * (self.fs / self.xs)

    def fmag(self, x):
        return self.base.fmag(np.asarray(x, dtype=float) / self.xs) * abs(self.fs)

    def curv(self, x):
        return self.base.curv(np.asarray(x, dtype=float) / self.xs) * abs(self.fs) / self.xs**2
