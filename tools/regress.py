#!/usr/bin/env python3
"""Sensitivity regression: every planned mutant (selftest/mutants) and every seeded change (seeded/*) must
still be caught by the quick tier of the check(s) recorded for it.  Prints one line per item; exit 1 if a
previously caught item is now missed.  Scratch worktrees live under a temp dir and are removed.

usage: tools/regress.py [--only mutants|seeds] [pattern]
"""
import glob, json, os, shutil, subprocess, sys, tempfile, time

VERIF = os.path.dirname(os.path.dirname(os.path.abspath(__file__)))


def sh(cmd, **kw):
    return subprocess.run(cmd, shell=True, capture_output=True, text=True, **kw)


def run_checks(wt, checks, env):
    out = {}
    for c in checks:
        r = subprocess.run(["./vcheck", c, "--tier", "quick"], cwd=VERIF, env=dict(env, LBFGSB_REPO=wt), capture_output=True, text=True)
        clauses = [l.split(" -- ")[0].replace("violated clause: ", "") for l in r.stdout.splitlines() if l.startswith("violated clause")]
        out[c] = {"rc": r.returncode, "clauses": clauses[:4]}
    return out


def main():
    only = None
    args = [a for a in sys.argv[1:]]
    if "--only" in args:
        only = args[args.index("--only") + 1]
        args = [a for a in args if a not in ("--only", only)]
    pat = args[0] if args else ""
    scratch = tempfile.mkdtemp(prefix="vf_regress_")
    env = dict(os.environ, VERIF_EVIDENCE_DIR=os.path.join(scratch, "ev"), VERIF_REPLAY_OUT=os.path.join(scratch, "rp"))
    wt = os.path.join(scratch, "wt")
    bad = 0
    results = {}
    try:
        items = []
        if only in (None, "mutants"):
            meta = json.load(open(os.path.join(VERIF, "selftest", "mutants", "meta.json")))
            prev = json.load(open(os.path.join(VERIF, "selftest", "results.json")))
            for name in sorted(meta):
                caught_before = [c["check"] for c in prev.get(name, {}).get("caught_by", [])]
                items.append(("mutant", name, os.path.join(VERIF, "selftest", "mutants", name + ".diff"), "HEAD", caught_before))
        if only in (None, "seeds"):
            for d in sorted(glob.glob(os.path.join(VERIF, "seeded", "C*"))):
                m = json.load(open(os.path.join(d, "meta.json")))
                base = m["confirmed_by_me"]["repo_commit"]
                caught_before = [c for c, v in m["confirmed_by_me"]["quick_checks_against_it"].items() if v["rc"] == 1]
                items.append(("seed", os.path.basename(d), os.path.join(d, "patch.diff"), base, caught_before))
        for kind, name, patch, base, expect in items:
            if pat and pat not in name:
                continue
            if not expect:
                print(f"{kind} {name}: nothing recorded as catching it (equivalent mutant?) - skipped", flush=True)
                continue
            sh(f"git -C /repo worktree remove --force {wt}")
            # mutants are written against HEAD; seeds against the commit they were made for, re-based onto HEAD when the patch still applies
            r = sh(f"git -C /repo worktree add -q --detach {wt} HEAD")
            ap = sh(f"git -C {wt} apply --whitespace=nowarn {patch}")
            used = "HEAD"
            if ap.returncode != 0:
                sh(f"git -C /repo worktree remove --force {wt}")
                sh(f"git -C /repo worktree add -q --detach {wt} {base}")
                ap = sh(f"git -C {wt} apply --whitespace=nowarn {patch}")
                used = base
            if ap.returncode != 0:
                print(f"{kind} {name}: PATCH DOES NOT APPLY", flush=True)
                bad += 1
                continue
            t0 = time.time()
            res = run_checks(wt, expect, env)
            missed = [c for c, v in res.items() if v["rc"] != 1]
            if missed and kind == "seed" and used == "HEAD" and sh(f"git -C /repo rev-parse --short HEAD").stdout.strip() != base:
                # a later fix: commit may have neutralised the seeded change (its own demo passes on HEAD): judge it on the commit it was written for
                sh(f"git -C /repo worktree remove --force {wt}")
                sh(f"git -C /repo worktree add -q --detach {wt} {base}")
                if sh(f"git -C {wt} apply --whitespace=nowarn {patch}").returncode == 0:
                    res = run_checks(wt, expect, env)
                    missed = [c for c, v in res.items() if v["rc"] != 1]
                    used = base + " (missed on HEAD: re-judged on its own base)"
            results[name] = {"applied_on": used, "checks": res}
            print(f"{kind} {name} (on {used}): " + "; ".join(f"{c}={'CAUGHT ' + ','.join(v['clauses'][:2]) if v['rc'] == 1 else 'MISSED rc=' + str(v['rc'])}" for c, v in res.items()) + f"  [{time.time() - t0:.0f}s]", flush=True)
            if missed:
                bad += 1
        json.dump(results, open(os.path.join(VERIF, "selftest", "regress_results.json"), "w"), indent=1)
    finally:
        sh(f"git -C /repo worktree remove --force {wt}")
        sh("git -C /repo worktree prune")
        shutil.rmtree(scratch, ignore_errors=True)
    print("REGRESSION", "FAILED" if bad else "OK", f"({bad} item(s) missed)")
    return 1 if bad else 0


sys.exit(main())
