#!/bin/bash
# Runs every registered quick (or thorough) check once; prints one line per check.
cd "$(dirname "$0")/.." || exit 2
tier="${1:-quick}"
rc_all=0
for id in C01 C02 C03 C04 C05 C06 C07 C08 C09 C10 C11 C12 C13 C14 C15 C16 C17 C18 C19 C20; do
  out=$(./vcheck "$id" --tier "$tier" 2>&1); rc=$?
  echo "$id rc=$rc $(echo "$out" | grep -E "^$id tier" | tail -1)"
  echo "$out" | grep -E "^(VIOLATION|KNOWN-FINDING|HARNESS)" | head -5
  [ $rc -ne 0 ] && rc_all=1
done
exit $rc_all
