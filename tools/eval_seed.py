#!/usr/bin/env python3
"""Confirms a seeded change produced by a sub-agent and runs checks against it.

usage: tools/eval_seed.py <ID> [<src_dir>] [--checks C01,C02 | --all]
  src_dir defaults to /tmp/seed/<ID>/out (patch.diff, demo.py, meta.json)
Writes /verif/seeded/<ID>/{patch.diff,demo.py,meta.json} when all confirmations hold.
Nothing under /repo is modified (scratch worktree under /tmp, removed afterwards)."""
import json, os, shutil, subprocess, sys, tempfile, time

VERIF = os.path.dirname(os.path.dirname(os.path.abspath(__file__)))


def sh(cmd, **kw):
    return subprocess.run(cmd, shell=True, capture_output=True, text=True, **kw)


def main():
    pid = sys.argv[1]
    rest = [a for a in sys.argv[2:] if not a.startswith("--")]
    src = rest[0] if rest else f"/tmp/seed/{pid}/out"
    name = os.path.basename(os.path.dirname(src.rstrip("/"))) if not rest else os.path.basename(src.rstrip("/"))
    dest_name = pid if not rest else name
    checks = [pid[:3]]
    for a in sys.argv[2:]:
        if a.startswith("--checks"):
            checks = a.split("=", 1)[1].split(",")
        if a == "--all":
            checks = [f"C{i:02d}" for i in range(1, 21)]
    base = "HEAD"
    for a in sys.argv[2:]:
        if a.startswith("--base="):
            base = a.split("=", 1)[1]
        if a.startswith("--dest="):
            dest_name = a.split("=", 1)[1]
    scratch = tempfile.mkdtemp(prefix="vf_seed_")
    wt = os.path.join(scratch, "wt")
    rep = {"property": pid[:3], "source": src}
    try:
        assert sh(f"git -C /repo worktree add -q --detach {wt} {base}").returncode == 0
        r = sh(f"git -C {wt} apply --whitespace=nowarn {src}/patch.diff")
        rep["patch_applies"] = r.returncode == 0
        if r.returncode != 0:
            print("PATCH DOES NOT APPLY:", r.stderr)
            print(json.dumps(rep)); return 1
        t = sh(f"cd {wt} && PYTHONPATH={wt} /venv/bin/python -m pytest -q -p no:cacheprovider 2>&1 | tail -1")
        rep["repo_tests"] = t.stdout.strip()
        rep["repo_tests_pass"] = " passed" in t.stdout and "failed" not in t.stdout and "error" not in t.stdout
        d1 = sh(f"cd {src} && PYTHONPATH={wt} timeout 600 /venv/bin/python demo.py")
        wt0 = os.path.join(scratch, "wt0")
        assert sh(f"git -C /repo worktree add -q --detach {wt0} {base}").returncode == 0
        d0 = sh(f"cd {src} && PYTHONPATH={wt0} timeout 600 /venv/bin/python demo.py")
        sh(f"git -C /repo worktree remove --force {wt0}")
        rep["demo_rc_with_change"], rep["demo_rc_without_change"] = d1.returncode, d0.returncode
        rep["demo_tail_with_change"] = (d1.stdout + d1.stderr).strip().splitlines()[-3:]
        confirmed = rep["repo_tests_pass"] and d1.returncode == 1 and d0.returncode == 0
        rep["confirmed"] = confirmed
        env = dict(os.environ, VERIF_EVIDENCE_DIR=os.path.join(scratch, "ev"), VERIF_REPLAY_OUT=os.path.join(scratch, "rp"), LBFGSB_REPO=wt)
        rep["checks"] = {}
        for c in checks:
            t0 = time.time()
            r = subprocess.run(["./vcheck", c, "--tier", "quick"], cwd=VERIF, env=env, capture_output=True, text=True)
            clauses = [l.split(" -- ")[0].replace("violated clause: ", "") for l in r.stdout.splitlines() if l.startswith("violated clause")]
            rep["checks"][c] = {"rc": r.returncode, "clauses": clauses, "s": round(time.time() - t0, 1)}
            if r.returncode == 2:
                rep["checks"][c]["stderr"] = r.stderr.strip().splitlines()[-3:]
        print(json.dumps(rep, indent=1))
        if confirmed:
            dst = os.path.join(VERIF, "seeded", dest_name)
            os.makedirs(dst, exist_ok=True)
            shutil.copy(os.path.join(src, "patch.diff"), dst)
            shutil.copy(os.path.join(src, "demo.py"), dst)
            meta = {}
            try:
                meta = json.load(open(os.path.join(src, "meta.json")))
            except Exception:
                pass
            meta["property"] = pid[:3]
            meta["confirmed_by_me"] = {
                "repo_commit": sh(f"git -C /repo rev-parse --short {base}").stdout.strip(),
                "ran": [f"git worktree add <scratch> HEAD && git apply patch.diff", f"pytest in scratch: {rep['repo_tests']}",
                        f"PYTHONPATH=<scratch> python demo.py -> rc {d1.returncode}", f"PYTHONPATH=<scratch worktree of the same commit without the patch> python demo.py -> rc {d0.returncode}"],
                "quick_checks_against_it": rep["checks"],
            }
            json.dump(meta, open(os.path.join(dst, "meta.json"), "w"), indent=1)
        return 0
    finally:
        sh(f"git -C /repo worktree remove --force {wt}")
        sh("git -C /repo worktree prune")
        shutil.rmtree(scratch, ignore_errors=True)


sys.exit(main())
