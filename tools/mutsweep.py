#!/usr/bin/env python3
"""Mutation sweep: a sensitivity measurement of the whole framework (decides no property).

Generates first-order syntactic mutants of the solver modules (AST level: comparison flips, +/- and *// swaps,
and/or, dropped `not` / unary minus, constant tweaks, dropped .copy(), min<->max, index -1 -> -2, augmented
assignment sign), keeps those that still pass the repository's own test-suite ("still compiling and passing
the existing tests"), and runs the quick tier of the checks against each until one of them reports a violation.
Survivors are either equivalent mutants or gaps; each one is looked at by hand (notes/mutsweep.md).

usage: tools/mutsweep.py [--n 200] [--skip 0] [--seed 1] [--files cauchy,subspacemin,...] [--jobs 14] [--out notes/mutsweep.json]
Scratch copies live under a temp dir and are removed.  /repo itself is never touched.
"""
import ast, copy, json, os, random, shutil, subprocess, sys, tempfile, time
from concurrent.futures import ThreadPoolExecutor

VERIF = os.path.dirname(os.path.dirname(os.path.abspath(__file__)))
REPO = "/repo"
FILES = ["cauchy", "subspacemin", "linesearch", "bfgsmats", "main", "scalar_function", "base", "utils"]
# checks most likely to notice a change in a file come first (the sweep stops at the first catch)
ORDER = {
    "cauchy": ["C08", "C01", "C02", "C12", "C09"],
    "subspacemin": ["C09", "C01", "C02", "C12", "C08"],
    "linesearch": ["C11", "C03", "C12", "C02", "C04", "C01"],
    "bfgsmats": ["C10", "C18", "C06", "C13", "C12", "C01"],
    "main": ["C04", "C05", "C06", "C12", "C01", "C02", "C03", "C07", "C13", "C14", "C17", "C18", "C20", "C10", "C11"],
    "scalar_function": ["C15", "C16", "C05", "C17", "C20", "C14", "C02"],
    "base": ["C02", "C04", "C01", "C14", "C16", "C12"],
    "utils": ["C17", "C18"],
}
ALL = [f"C{i:02d}" for i in range(1, 21)]
SKIP_CALLS = ("info", "debug", "warning", "display_start", "display_iter", "display_results", "display_start_point", "filterwarnings", "catch_warnings", "assert_allclose")


def logging_test(test):
    return any(isinstance(x, ast.Name) and x.id in ("iprint", "logger") for x in ast.walk(test))


class Sites(ast.NodeVisitor):
    """Collects (node-id, kind) for every mutable site inside function bodies, skipping logging / raise / annotations."""

    def __init__(self):
        self.sites = []
        self.depth = 0
        self.counter = 0

    def generic_visit(self, node):
        node._mid = self.counter
        self.counter += 1
        if isinstance(node, (ast.Raise, ast.Assert)):
            return
        if isinstance(node, ast.Expr) and isinstance(node.value, ast.Constant):
            return  # docstring
        if isinstance(node, ast.Call):
            f = node.func
            name = f.attr if isinstance(f, ast.Attribute) else getattr(f, "id", "")
            if name in SKIP_CALLS:
                return
        if isinstance(node, (ast.FunctionDef, ast.AsyncFunctionDef)):
            self.depth += 1
            for d in node.body:
                self.visit(d)
            self.depth -= 1
            return
        if isinstance(node, ast.AnnAssign) and node.value is None:
            return
        if isinstance(node, ast.If) and logging_test(node.test):
            return
        if self.depth > 0:
            self.collect(node)
        super().generic_visit(node)

    def collect(self, n):
        add = lambda kind: self.sites.append((n._mid, kind, getattr(n, "lineno", 0)))
        if isinstance(n, ast.Compare) and len(n.ops) == 1 and isinstance(n.ops[0], (ast.Lt, ast.LtE, ast.Gt, ast.GtE, ast.Eq, ast.NotEq)):
            add("cmp")
        elif isinstance(n, ast.BinOp) and isinstance(n.op, (ast.Add, ast.Sub)):
            add("addsub")
        elif isinstance(n, ast.BinOp) and isinstance(n.op, (ast.Mult, ast.Div)):
            add("muldiv")
        elif isinstance(n, ast.BoolOp):
            add("andor")
        elif isinstance(n, ast.UnaryOp) and isinstance(n.op, (ast.Not, ast.USub)):
            add("unary")
        elif isinstance(n, ast.AugAssign) and isinstance(n.op, (ast.Add, ast.Sub)):
            add("aug")
        elif isinstance(n, ast.Constant) and isinstance(n.value, (int, float)) and not isinstance(n.value, bool):
            add("const")
        elif isinstance(n, ast.Constant) and isinstance(n.value, bool):
            add("bool")
        elif isinstance(n, ast.Call) and isinstance(n.func, ast.Attribute) and n.func.attr == "copy" and not n.args:
            add("dropcopy")
        elif isinstance(n, ast.Call) and (getattr(n.func, "attr", None) in ("minimum", "maximum", "min", "max", "argmin", "argmax") or getattr(n.func, "id", None) in ("min", "max")):
            add("minmax")
        elif isinstance(n, ast.Subscript) and isinstance(n.slice, ast.UnaryOp) and isinstance(n.slice.op, ast.USub) and isinstance(n.slice.operand, ast.Constant):
            add("index")


class Apply(ast.NodeTransformer):
    def __init__(self, mid, kind):
        self.mid, self.kind, self.counter, self.done = mid, kind, 0, None

    def generic_visit(self, node):
        my = self.counter
        self.counter += 1
        # must mirror Sites' numbering: it numbers every node it *enters*; pruned subtrees are not numbered
        if isinstance(node, (ast.Raise, ast.Assert)):
            return node
        if isinstance(node, ast.Expr) and isinstance(node.value, ast.Constant):
            return node
        if isinstance(node, ast.Call):
            f = node.func
            name = f.attr if isinstance(f, ast.Attribute) else getattr(f, "id", "")
            if name in SKIP_CALLS:
                return node
        if isinstance(node, (ast.FunctionDef, ast.AsyncFunctionDef)):
            node.body = [self.visit(d) for d in node.body]
            return node
        if isinstance(node, ast.AnnAssign) and node.value is None:
            return node
        if isinstance(node, ast.If) and logging_test(node.test):
            return node
        if my == self.mid:
            new = self.mutate(node)
            if new is not None:
                self.done = True
                return ast.copy_location(new, node)
        return super().generic_visit(node)

    def mutate(self, n):
        k = self.kind
        n = copy.deepcopy(n)
        if k == "cmp":
            sw = {ast.Lt: ast.LtE, ast.LtE: ast.Lt, ast.Gt: ast.GtE, ast.GtE: ast.Gt, ast.Eq: ast.NotEq, ast.NotEq: ast.Eq}
            n.ops = [sw[type(n.ops[0])]()]
        elif k == "addsub":
            n.op = ast.Sub() if isinstance(n.op, ast.Add) else ast.Add()
        elif k == "muldiv":
            n.op = ast.Div() if isinstance(n.op, ast.Mult) else ast.Mult()
        elif k == "andor":
            n.op = ast.Or() if isinstance(n.op, ast.And) else ast.And()
        elif k == "unary":
            return n.operand
        elif k == "aug":
            n.op = ast.Sub() if isinstance(n.op, ast.Add) else ast.Add()
        elif k == "const":
            v = n.value
            n.value = (1 if v == 0 else 0 if v == 1 else v + 1) if isinstance(v, int) else (v * 10.0 if v != 0 else 1.0)
        elif k == "bool":
            n.value = not n.value
        elif k == "dropcopy":
            return n.func.value
        elif k == "minmax":
            sw = {"minimum": "maximum", "maximum": "minimum", "min": "max", "max": "min", "argmin": "argmax", "argmax": "argmin"}
            if isinstance(n.func, ast.Attribute):
                n.func.attr = sw[n.func.attr]
            else:
                n.func.id = sw[n.func.id]
        elif k == "index":
            n.slice.operand.value = n.slice.operand.value + 1
        else:
            return None
        return n


def sh(cmd, **kw):
    return subprocess.run(cmd, shell=True, capture_output=True, text=True, **kw)


def make_mutant(scratch, k, fname, mid, kind):
    d = os.path.join(scratch, f"m{k}")
    shutil.copytree(REPO, d, ignore=shutil.ignore_patterns(".git", "docs", "*.egg-info", "__pycache__", "examples"))
    path = os.path.join(d, "lbfgsb", fname + ".py")
    src = open(path).read()
    tree = ast.parse(src)
    ap = Apply(mid, kind)
    new = ap.visit(tree)
    if not ap.done:
        return None, None
    ast.fix_missing_locations(new)
    out = ast.unparse(new)
    base = ast.unparse(ast.parse(src))
    open(path, "w").write(out + "\n")
    import difflib

    diff = "".join(difflib.unified_diff(base.splitlines(True), (out + "\n").splitlines(True), "a/" + fname + ".py", "b/" + fname + ".py", n=1))
    return d, diff


def run_tests(d):
    r = sh(f"cd {d} && PYTHONPATH={d} /venv/bin/python -m pytest -x -q -p no:cacheprovider --timeout=600 2>&1 | tail -3", timeout=1500)
    return (" passed" in r.stdout and " failed" not in r.stdout and "error" not in r.stdout.lower()), r.stdout.strip().splitlines()[-1:] if r.stdout else []


def run_checks(d, checks, env):
    for c in checks:
        r = subprocess.run(["./vcheck", c, "--tier", "quick"], cwd=VERIF, env=dict(env, LBFGSB_REPO=d), capture_output=True, text=True)
        if r.returncode == 1:
            cl = [l.split(" -- ")[0].replace("violated clause: ", "") for l in r.stdout.splitlines() if l.startswith("violated clause")]
            return c, cl[:3]
        if r.returncode == 2:
            return c + "(harness-error)", [l for l in r.stderr.splitlines() if l.strip()][-2:]
    return None, []


def main():
    a = sys.argv[1:]
    opt = lambda k, dflt: a[a.index(k) + 1] if k in a else dflt
    n, seed, jobs = int(opt("--n", "200")), int(opt("--seed", "1")), int(opt("--jobs", "14"))
    files = opt("--files", ",".join(FILES)).split(",")
    outp = os.path.join(VERIF, opt("--out", "notes/mutsweep.json"))
    rng = random.Random(seed)
    sites = []
    for f in files:
        tree = ast.parse(open(os.path.join(REPO, "lbfgsb", f + ".py")).read())
        s = Sites()
        s.visit(tree)
        sites += [(f, mid, kind, ln) for mid, kind, ln in s.sites]
    print(f"{len(sites)} mutation sites in {files}", flush=True)
    rng.shuffle(sites)
    skip = int(opt("--skip", "0"))  # continue a sweep: same shuffle, leave out the first `skip` sites
    chosen = sites[skip:skip + n]
    scratch = tempfile.mkdtemp(prefix="vf_mut_")
    env = dict(os.environ, VERIF_EVIDENCE_DIR=os.path.join(scratch, "ev"), VERIF_REPLAY_OUT=os.path.join(scratch, "rp"))
    results = []
    try:
        muts = []
        for k, (f, mid, kind, ln) in enumerate(chosen):
            d, diff = make_mutant(scratch, k, f, mid, kind)
            if d is None:
                print("could not apply", f, mid, kind, flush=True)
                continue
            muts.append({"k": k, "file": f, "kind": kind, "line": ln, "dir": d, "diff": diff})
        # the unmutated copy must behave like /repo (sanity of the copy + unparse round trip)
        with ThreadPoolExecutor(jobs) as ex:
            for m, (ok, tail) in zip(muts, ex.map(lambda m: run_tests(m["dir"]), muts)):
                m["tests_pass"] = ok
                m["tests_tail"] = tail
                if not ok:
                    shutil.rmtree(m["dir"], ignore_errors=True)
        alive = [m for m in muts if m["tests_pass"]]
        print(f"{len(muts)} mutants, {len(muts) - len(alive)} killed by the repository's tests, {len(alive)} pass them", flush=True)
        for m in alive:
            t0 = time.time()
            first = ORDER.get(m["file"], [])
            tail = ALL if "--all-checks" in a else ["C12", "C05", "C02", "C04"]
            c, cl = run_checks(m["dir"], first + [x for x in tail if x not in first], env)
            m["caught_by"], m["clauses"], m["s"] = c, cl, round(time.time() - t0)
            print(f"m{m['k']} {m['file']}:{m['line']} {m['kind']}: {'CAUGHT by ' + c + ' ' + ','.join(cl) if c else 'SURVIVED'} [{m['s']}s]", flush=True)
            if not c:
                print(m["diff"], flush=True)
            shutil.rmtree(m["dir"], ignore_errors=True)
        results = [{k: v for k, v in m.items() if k != "dir"} for m in muts]
    finally:
        shutil.rmtree(scratch, ignore_errors=True)
        json.dump({"seed": seed, "n": n, "files": files, "results": results}, open(outp, "w"), indent=1)
    surv = [m for m in results if m.get("tests_pass") and not m.get("caught_by")]
    print(f"survivors: {len(surv)} of {len([m for m in results if m.get('tests_pass')])} test-passing mutants")


if __name__ == "__main__":
    main()
