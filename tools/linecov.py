#!/usr/bin/env python3
"""Which lines of the package do the generated cases of each check execute?  (diagnostic, decides nothing)

usage: tools/linecov.py [--tier quick] [ID ...]      -> notes/linecov.md
Runs ./vcheck <ID> with VERIF_LINECOV set (sys.monitoring, Python >= 3.12), then lists per source file the executable
lines no check reached.  Reading that list is how generator gaps are found ("is there a branch nobody enters?")."""
import glob, json, os, shutil, subprocess, sys, tempfile

VERIF = os.path.dirname(os.path.dirname(os.path.abspath(__file__)))
REPO = os.environ.get("LBFGSB_REPO", "/repo")


def executable_lines(path):
    src = open(path).read()
    code = compile(src, path, "exec")
    lines = set()
    stack = [k for k in code.co_consts if hasattr(k, "co_lines")]  # function bodies only: module-level lines run at import
    while stack:
        c = stack.pop()
        for _, _, ln in c.co_lines():
            if ln is not None and ln != c.co_firstlineno:
                lines.add(ln)
        for k in c.co_consts:
            if hasattr(k, "co_lines"):
                stack.append(k)
    # drop docstring-only / def lines noise: keep everything, the report shows source text
    return lines, src.splitlines()


def main():
    args = sys.argv[1:]
    tier = "quick"
    if "--tier" in args:
        tier = args[args.index("--tier") + 1]
        args = [a for a in args if a not in ("--tier", tier)]
    ids = args or [f"C{i:02d}" for i in range(1, 21)]
    scratch = tempfile.mkdtemp(prefix="vf_linecov_")
    per = {}
    try:
        for pid in ids:
            d = os.path.join(scratch, pid)
            env = dict(os.environ, VERIF_LINECOV=d, VERIF_EVIDENCE_DIR=os.path.join(scratch, "ev"), VERIF_REPLAY_OUT=os.path.join(scratch, "rp"))
            r = subprocess.run(["./vcheck", pid, "--tier", tier], cwd=VERIF, env=env, capture_output=True, text=True)
            hits = set()
            for f in glob.glob(os.path.join(d, "*.json")):
                hits |= {tuple(x) for x in json.load(open(f))}
            per[pid] = hits
            print(pid, "rc", r.returncode, len(hits), "lines", flush=True)
    finally:
        shutil.rmtree(scratch, ignore_errors=True)
    union = set().union(*per.values()) if per else set()
    out = [f"# Lines of the package reached by the generated cases ({tier} tier; checks: {' '.join(ids)})", ""]
    tot_e = tot_h = 0
    files = [f for f in sorted(glob.glob(os.path.join(REPO, "lbfgsb", "*.py"))) if os.path.basename(f) not in ("benchmarks.py", "__about__.py", "__init__.py", "types.py")]
    for path in files:
        name = os.path.basename(path)
        ex, src = executable_lines(path)
        hit = {ln for (fn, ln) in union if fn == name}
        miss = sorted(ex - hit)
        tot_e += len(ex); tot_h += len(ex & hit)
        out.append(f"## {name}: {len(ex & hit)}/{len(ex)} executable lines reached")
        for ln in miss:
            out.append(f"    {ln:5d}  {src[ln - 1].rstrip()}")
        out.append("")
    out.insert(2, f"total: {tot_h}/{tot_e}\n")
    out.append("## per check (lines reached)")
    for pid in ids:
        out.append(f"- {pid}: {len(per[pid])}")
    open(os.path.join(VERIF, "notes", "linecov.md"), "w").write("\n".join(out) + "\n")
    print(f"total {tot_h}/{tot_e} -> notes/linecov.md")


if __name__ == "__main__":
    main()
