#!/usr/bin/env python3
"""Regenerates /verif/MANIFEST.json from the table below.  A property whose check
module does not exist (yet) is listed under not_applicable with that reason, so the
manifest is valid at every commit."""

import json
import os
import sys

HERE = os.path.dirname(os.path.dirname(os.path.abspath(__file__)))

T = "property-based testing (Hypothesis generators, shrinking to a replay file)"

PROPS = {
    "C01": ("exploration", "validity-predicate oracle over generated convex box problems (projected gradient recomputed by the harness vs. tolerance / objective-resolution floor); exhaustive start-placement patterns for small n in thorough",
            "objective families are the generated ones (kappa<=1e4); floor 10*sqrt(delta_f*L) derived from the construction; nothing established beyond the explored cases",
            T + "; validity predicate"),
    "C02": ("exploration", "trace invariant (exact box membership of every logged evaluation / callback / result point) over generated runs in all five gradient modes",
            "harness closures see every point handed to the user's callables; 'cs' mode judged on the real part; explored cases only",
            T + "; invariant over the evaluation trace"),
    "C03": ("exploration", "trace invariant (monotone objective over accepted iterates; a move implies strict decrease) over generated runs with tiny line-search / evaluation budgets",
            "objective closures are pure so recomputed values are the values the solver saw; explored cases only",
            T + "; invariant over the iterate history"),
    "C04": ("exploration", "message => state implications, budget inequalities and call counts over the generated configuration lattice and restart histories; targets and tolerances placed one ulp below / on / above attained values; runs whose objective is redefined by an update function",
            "documented message strings are the seven of the docstring/statement; explored histories only",
            T + " over operation histories (restart chains); implication oracle"),
    "C05": ("exploration", "round trip: recompute f,g at every reported x with the harness's own closures (bitwise) and compare counters with the call log, over fresh runs and restart chains",
            "closures are the very functions the solver called and are pure, so bit equality is sound",
            T + "; round-trip oracle + call-log accounting"),
    "C06": ("exploration", "differential: restarted vs. uninterrupted run at generated/enumerated split points, chains and reduced maxcor (a differing next iterate is judged only when the reference continuation is insensitive to a 2-ulp perturbation of its checkpoint)",
            "tolerances c*eps*max|chain| for pairs and 1e-7*step for the next iterate (derived in DESIGN C06); restart with a gradient scaler is a recorded known finding",
            T + "; differential oracle against the uninterrupted run"),
    "C07": ("fault_enumeration", "every callback iteration of every generated run is a crash point: state vs. maxiter=k rerun (bitwise), immutability of retained states, crash (raising objective) + restart vs. uninterrupted run, incl. tight evaluation budgets and crashes after a mid-run memory reset",
            "crash = exception raised by the objective at a drawn later call; explored runs only",
            T + "; crash-point enumeration with differential oracle"),
    "C08": ("exploration", "definition predicate of the generalized Cauchy point with a dense B built independently + independent reference implementation; exhaustive structural patterns for small n, generated cases to n=10, inputs intercepted in real runs",
            "dense BFGS recursion of the harness is the model; tie-breaking differences are accepted through the predicate, not through point equality",
            T + " + exhaustive enumeration of structural patterns; reference model"),
    "C09": ("exploration", "reference model (dense reduced Newton point + box truncation) on generated and intercepted inputs",
            "reference Cauchy point supplied by the harness so the check is independent of C08's implementation",
            T + "; reference-model oracle"),
    "C10": ("exploration", "stateful (rule-based) histories of accepted / rejected / marginal updates with the dense BFGS recursion as model, invariants after every step; plus update sequences intercepted in real runs",
            "numerical clauses judged only while the dense reference is well conditioned (stated gate); exact clauses always",
            "model-based stateful property testing (Hypothesis RuleBasedStateMachine) against a dense BFGS reference"),
    "C11": ("exploration", "invariant over the trial log of line_search on generated feasible descent directions (box membership, evaluation cap, strictly lower value at the returned step)",
            "directions are projected-gradient steps as the quantifier says; explored cases only",
            T + "; invariant over the trial log"),
    "C12": ("exploration", "differential against SciPy's L-BFGS-B with detectors for the three documented deviations run on the reference trace; probe families aimed at the line-search constants; one-sided optimal-value comparison on convex box problems",
            "SciPy 1.18's Fortran-derived implementation is the reference; comparison stops at the first detected documented deviation or in the round-off regime",
            T + "; differential oracle against scipy.optimize L-BFGS-B"),
    "C13": ("exploration", "metamorphic (identity update function => bit-identical run) and differential (objective switch at iteration k vs. restart on the new objective from the rewritten history)",
            "the switch objectives are the generated ones (rescaling, re-weighted regulariser, curvature-breaking rewrites)",
            T + "; metamorphic + differential oracles"),
    "C14": ("exploration", "harness-owned schedules: all interleavings of objective calls of two runs on two threads (bounded), nested runs, read-only / integer inputs, iprint x logger; oracle = bitwise equality with the solo run and byte-identical inputs",
            "pre-emption inside numpy kernels is not owned by the harness (sampled only); interleavings are at objective-call granularity",
            "schedule enumeration + " + T + "; differential oracle against the solo run"),
    "C15": ("exploration", "exhaustive call histories over {fun, grad, fun_and_grad} x 3 points up to a bounded length in every gradient mode (variants: returned array overwritten, scribbling callables, start dtypes, a user call that raises once and is repeated) + stateful machine with scaling changes and in-place mutation; oracle = fresh evaluation and call-log accounting",
            "does not assert a particular cache size (a better cache satisfies the property)",
            "exhaustive enumeration of bounded histories + model-based stateful property testing"),
    "C16": ("exploration", "finite-difference runs on generated convex problems / benchmarks with bounds active at start and optimum, optionally preceded by a run with other differencing options: no exception, stencil inside the box, every differencing request equal to scipy approx_derivative called with the requested options (points and gradient), complex-step gradient vs exact gradient, nfev accounting, value vs. exact-gradient run",
            "tolerance 1e-6*(1+|f|) from the differencing error bound (DESIGN C16); the value clause is judged only where the requested scheme, recomputed independently, resolves the gradient",
            T + "; differential oracles against scipy.optimize approx_derivative and against the exact-gradient run"),
    "C17": ("exploration", "metamorphic: run with scaler s vs. run on the explicitly scaled objective, bitwise on logs and results; scaler call protocol",
            "bit equality is by construction of the harness (it computes f(x)*s exactly as the wrapper does)",
            T + "; metamorphic oracle"),
    "C18": ("exploration", "invariant over the history: stored pairs are bit-exact differences of logged iterates/gradients in chronological order with s.y>0; dense inverse-BFGS reference for SPD-ness and the diagonal utility",
            "pairs inherited from a checkpoint are compared up to the reconstruction rounding of C06(a)",
            T + "; invariant over the logged history + dense reference model"),
    "C19": ("exploration", "reference model: 6th-order Richardson derivative of each benchmark function at generated points in dimensions 1..12 (incl. special coordinate values and non-contiguous / read-only / list inputs)",
            "smoothness away from the excluded neighbourhoods; tolerance 1e-6 relative (measured accuracy 2e-12)",
            T + "; reference-model oracle (high-order numerical derivative)"),
    "C20": ("fault_enumeration", "every call index of every kind of user callable in generated runs is a fault-injection point; oracle = same exception type and message reaches the caller, and an identical fault-free call afterwards equals the baseline bitwise",
            "fresh-process equality is sampled; otherwise the in-process baseline computed before any fault is the reference",
            "fault injection at enumerated call indices + " + T),
}


def main():
    checks, na = [], []
    for pid in sorted(PROPS):
        cat, text, note, tech = PROPS[pid]
        if os.path.exists(os.path.join(HERE, "vf", "props", pid.lower() + ".py")):
            checks.append({
                "property_id": pid,
                "quick_cmd": f"./vcheck {pid} --tier quick",
                "thorough_cmd": f"./vcheck {pid} --tier thorough",
                "evidence_file": f"/verif/evidence/{pid}.json",
                "replay_cmd_template": f"./vcheck {pid} --replay {{path}}",
                "engine": "vf",
                "level_claimed": {"category": cat, "text": text, "design_ref": f"DESIGN.md section 5, {pid}"},
                "level_note": note,
                "technique": tech,
            })
        else:
            na.append({"property_id": pid, "reason": "check not built yet at this commit (planned in DESIGN.md section 5); not a statement that the technique cannot apply"})
    man = {
        "version": 1,
        "setup_cmd": "./vcheck --setup",
        "hooks": {
            "guard": "LBFGSB_VERIF",
            "enable": "none needed: no source hooks; checks import lbfgsb from /repo's working tree (LBFGSB_REPO overrides the path for self-tests)",
            "baseline_off_cmd": "cd /repo && /venv/bin/python -m pytest -ra -q -p no:cacheprovider --timeout=900 --continue-on-collection-errors",
            "source_commits": [],
            "add_only": True,
        },
        "engines": [{
            "name": "vf", "path": "/verif/vf",
            "serves_properties": [c["property_id"] for c in checks],
            "kind_free_text": "Hypothesis-driven property-based testing (plain + stateful), exhaustive enumeration of small finite sub-spaces, fault / crash-point / schedule enumeration; 16 forked shards; JSON replay files",
        }],
        "checks": checks,
        "notes": "Every check: `./vcheck <ID> --tier quick|thorough`; honours VERIF_SEED / VERIF_TIER; exit 0 held, 1 VIOLATION, 2 harness error. Known findings: known_findings.json (read-only at run time).",
        "not_applicable": na,
    }
    import jsonschema
    with open(os.path.join(HERE, "schemas", "MANIFEST.schema.json")) as fh:
        jsonschema.validate(man, json.load(fh))
    with open(os.path.join(HERE, "MANIFEST.json"), "w") as fh:
        json.dump(man, fh, indent=1)
    print(f"MANIFEST.json: {len(checks)} checks, {len(na)} not_applicable")


if __name__ == "__main__":
    sys.exit(main())
