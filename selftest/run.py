#!/usr/bin/env python3
"""Sensitivity self-test: apply each mutant patch to a scratch worktree of /repo, check that the
repository's own test-suite still passes (a realistic breakage), run the quick tier of the checks
that are expected to notice, and record caught / missed.  Nothing under /repo is modified.

usage: selftest/run.py [pattern] [--all-checks] [--dir DIR_WITH_DIFFS]
"""
import glob, json, os, subprocess, sys, time, tempfile, shutil

HERE = os.path.dirname(os.path.abspath(__file__))
VERIF = os.path.dirname(HERE)
ALL = [f"C{i:02d}" for i in range(1, 21)]


def sh(cmd, **kw):
    return subprocess.run(cmd, shell=True, capture_output=True, text=True, **kw)


def main():
    args = [a for a in sys.argv[1:] if not a.startswith("--")]
    pat = args[0] if args else ""
    all_checks = "--all-checks" in sys.argv
    mdir = os.path.join(HERE, "mutants")
    meta = json.load(open(os.path.join(mdir, "meta.json")))
    results = {}
    out_path = os.path.join(HERE, "results.json")
    if os.path.exists(out_path):
        results = json.load(open(out_path))
    scratch = tempfile.mkdtemp(prefix="vf_selftest_")
    env = dict(os.environ, VERIF_EVIDENCE_DIR=os.path.join(scratch, "ev"), VERIF_REPLAY_OUT=os.path.join(scratch, "rp"))
    try:
        for name in sorted(meta):
            if pat and pat not in name:
                continue
            wt = os.path.join(scratch, "wt")
            sh(f"git -C /repo worktree remove --force {wt}")
            r = sh(f"git -C /repo worktree add -q --detach {wt} HEAD")
            assert r.returncode == 0, r.stderr
            r = sh(f"git -C {wt} apply {os.path.join(mdir, name + '.diff')}")
            if r.returncode != 0:
                print(name, "PATCH DOES NOT APPLY", r.stderr)
                results[name] = {"applies": False}
                continue
            t = sh(f"cd {wt} && /venv/bin/python -m pytest -q -p no:cacheprovider -x 2>&1 | tail -1")
            tests_pass = " passed" in t.stdout and "failed" not in t.stdout
            checks = ALL if all_checks else meta[name]["expected"]
            caught, missed = [], []
            for c in checks:
                t0 = time.time()
                r = subprocess.run(["./vcheck", c, "--tier", "quick"], cwd=VERIF, env=dict(env, LBFGSB_REPO=wt), capture_output=True, text=True)
                clauses = [l.split(" -- ")[0].replace("violated clause: ", "") for l in r.stdout.splitlines() if l.startswith("violated clause")]
                if r.returncode == 1 and "VIOLATION" in r.stdout:
                    caught.append({"check": c, "clauses": clauses, "s": round(time.time() - t0, 1)})
                elif r.returncode == 0:
                    missed.append(c)
                else:
                    missed.append(c + f"(rc={r.returncode}: {r.stderr.strip().splitlines()[-1] if r.stderr.strip() else ''})")
            results[name] = {"applies": True, "repo_tests_pass": tests_pass, "caught_by": caught, "missed_by": missed, "expected": meta[name]["expected"]}
            print(name, "tests_pass=%s" % tests_pass, "caught:", [(c["check"], c["clauses"][:2]) for c in caught], "missed:", missed, flush=True)
            json.dump(results, open(out_path, "w"), indent=1)
            sh(f"git -C /repo worktree remove --force {wt}")
    finally:
        sh(f"git -C /repo worktree remove --force {os.path.join(scratch, 'wt')}")
        sh("git -C /repo worktree prune")
        shutil.rmtree(scratch, ignore_errors=True)


main()
