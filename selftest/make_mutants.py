#!/usr/bin/env python3
"""Builds the planned sensitivity mutants (DESIGN section 8) as patch files against /repo HEAD.
Each mutant is a (file, old, new) string replacement made in a scratch worktree."""
import json, os, subprocess, sys, shutil

HERE = os.path.dirname(os.path.abspath(__file__))
M = {
 "m01_no_clip_start": ("lbfgsb/base.py", "    return np.clip(x0.T, lb, ub).T\n", "    return np.array(x0.T, dtype=np.float64).T\n", ["C02"]),
 "m02_subspace_swap_bounds": ("lbfgsb/subspacemin.py", "dHat[mask] > 0, (ub - xc)[free_vars][mask], (lb - xc)[free_vars][mask]", "dHat[mask] < 0, (ub - xc)[free_vars][mask], (lb - xc)[free_vars][mask]", ["C09", "C01"]),
 "m03_theta_inverted": ("lbfgsb/bfgsmats.py", "        mats.theta = yTy / sTy\n", "        mats.theta = sTy / yTy\n", ["C10", "C12"]),
 "m04_pop_newest": ("lbfgsb/bfgsmats.py", "    if len(X) > maxcor + 1:\n        X.popleft()\n        G.popleft()\n", "    if len(X) > maxcor + 1:\n        del X[-2]\n        del G[-2]\n", ["C10", "C18"]),
 "m05_ftol_linesearch": ("lbfgsb/main.py", "    ftol_linesearch: float = 1e-3,", "    ftol_linesearch: float = 1e-4,", ["C12"]),
 "m06_gtol_linesearch": ("lbfgsb/main.py", "    gtol_linesearch: float = 0.9,", "    gtol_linesearch: float = 0.8,", ["C12"]),
 "m07_return_last_trial_f": ("lbfgsb/main.py", "            f0, grad = sf.fun_and_grad(x)\n", "            f0, grad = sf.f * sf.scaling_factor, sf.g * sf.scaling_factor\n", ["C05"]),
 "m08_count_cache_hits": ("lbfgsb/scalar_function.py", "    def fun(self, x) -> float:\n        if not np.array_equal(x, self.x):\n            self.update_x(x)\n", "    def fun(self, x) -> float:\n        if not np.array_equal(x, self.x):\n            self.update_x(x)\n        else:\n            self.nfev += 1\n", ["C05", "C15"]),
 "m09_memo_key_first_component": ("lbfgsb/scalar_function.py", "    def fun_and_grad(self, x):\n        if not np.array_equal(x, self.x):", "    def fun_and_grad(self, x):\n        if not np.array_equal(x[:1], self.x[:1]):", ["C15"]),
 "m10_cache_f_across_update_x": ("lbfgsb/scalar_function.py", "        self.x = np.atleast_1d(x).astype(float)\n        self.f_updated = False\n", "        self.x = np.atleast_1d(x).astype(float)\n        self.f_updated = self.f_updated and self.g_updated\n", ["C15"]),
 "m11_class_level_state": ("lbfgsb/main.py", "    istate = InternalState()\n\n    if checkpoint is not None:\n        istate.nit = checkpoint.nit\n", "    istate = InternalState\n\n    if checkpoint is not None:\n        istate.nit = checkpoint.nit\n", ["C14"]),
 "m12_scale_g_twice": ("lbfgsb/scalar_function.py", "        return self.f * self.scaling_factor, self.g * self.scaling_factor\n", "        return self.f * self.scaling_factor, self.g * self.scaling_factor * self.scaling_factor\n", ["C17", "C05"]),
 "m13_scaler_gets_scaled_grad": ("lbfgsb/main.py", "        sf.scaling_factor = gradient_scaler(x, grad, lb, ub)\n", "        sf.scaling_factor = gradient_scaler(x, grad * 2.0, lb, ub)\n", ["C17"]),
 "m14_swallow_callback_exception": ("lbfgsb/main.py", "            if callback is not None and not istate.is_success:\n                if callback(", "            if callback is not None and not istate.is_success:\n                if _safe(callback)(", ["C20"]),
 "m15_classification_order": ("lbfgsb/main.py", "    if projgr(x, grad, lb, ub) <= _gtol:\n        istate.task_str = \"CONVERGENCE: NORM_OF_PROJECTED_GRADIENT_<=_PGTOL\"\n        istate.is_success = True\n        istate.warnflag = 1\n    elif istate.nit >= maxiter:", "    if istate.nit >= maxiter - 1:\n        istate.task_str = \"STOP: TOTAL NO. of ITERATIONS REACHED LIMIT\"\n        istate.is_success = True\n        istate.warnflag = 1\n    elif projgr(x, grad, lb, ub) <= _gtol:\n        istate.task_str = \"CONVERGENCE: NORM_OF_PROJECTED_GRADIENT_<=_PGTOL\"\n        istate.is_success = True\n        istate.warnflag = 1\n    elif istate.nit >= maxiter:", ["C04"]),
 "m16_linesearch_budget_ignores_maxfun": ("lbfgsb/main.py", "            min(maxls, maxfun - sf.nfev),\n", "            maxls,\n", ["C04"]),
 "m17_cauchy_fprime_sign": ("lbfgsb/cauchy.py", "        f_prime += delta_t * f_second + g_b * (g_b + mats.theta * zb)\n", "        f_prime += delta_t * f_second + g_b * (g_b - mats.theta * zb)\n", ["C08"]),
 "m18_restart_drop_counter": ("lbfgsb/main.py", "        sf.nfev = checkpoint.nfev\n", "        sf.nfev = 1\n", ["C05", "C06"]),
 "m19_callback_state_live_alias": ("lbfgsb/main.py", "            x = np.clip(x + steplength * d, lb, ub)\n", "            x += steplength * d\n            np.clip(x, lb, ub, out=x)\n", ["C07"]),
 "m20_eps_sy_large": ("lbfgsb/main.py", "    eps_SY: float = 2.2e-16,", "    eps_SY: float = 1e-3,", ["C12"]),
 "m21_benchmark_rastrigin": ("lbfgsb/benchmarks.py", "    return 2.0 * x + 20.0 * np.pi * np.sin(2.0 * np.pi * x)\n", "    return 2.0 * x + 20.0 * np.pi * np.sin(2.0 * np.pi * np.round(x, 6))\n", ["C19"]),
 "m22_fd_bounds_dropped": ("lbfgsb/main.py", "        bounds=(lb, ub),\n        finite_diff_rel_step=finite_diff_rel_step,\n", "        bounds=None,\n        finite_diff_rel_step=finite_diff_rel_step,\n", ["C16", "C02"]),
 "m23_update_fun_pairs_not_filtered": ("lbfgsb/main.py", "                X, G = make_X_and_G_respect_strong_wolfe(X, G, eps_SY, logger=logger)\n", "                pass\n", ["C13"]),
 "m24_diag_off_by_row": ("lbfgsb/utils.py", "        hess_inv_diag[i] = hess_inv.matvec(v)[i]\n", "        hess_inv_diag[i] = hess_inv.matvec(v)[i - 1 if i == n_params - 1 and n_params > 2 else i]\n", ["C18"]),
 "m26_pgtol_report_strict": ("lbfgsb/main.py", "    if projgr(x, grad, lb, ub) <= _gtol:\n        istate.task_str = \"CONVERGENCE: NORM_OF_PROJECTED_GRADIENT_<=_PGTOL\"", "    if projgr(x, grad, lb, ub) < _gtol:\n        istate.task_str = \"CONVERGENCE: NORM_OF_PROJECTED_GRADIENT_<=_PGTOL\"", ["C04"]),
 "m25_linesearch_accepts_equal": ("lbfgsb/linesearch.py", "            if f_m1 < best_f:\n", "            if f_m1 <= best_f:\n", ["C11", "C03"]),
}
EXTRA = {
 "m14_swallow_callback_exception": ("lbfgsb/main.py", "def minimize_lbfgsb(\n", "def _safe(cb):\n    def inner(*a, **k):\n        try:\n            return cb(*a, **k)\n        except Exception:\n            return False\n    return inner\n\n\ndef minimize_lbfgsb(\n"),
}

def main():
    wt = "/tmp/wt_mut"
    subprocess.run(["git", "-C", "/repo", "worktree", "remove", "--force", wt], capture_output=True)
    subprocess.check_call(["git", "-C", "/repo", "worktree", "add", "-q", "--detach", wt, "HEAD"])
    meta = {}
    try:
        for name, (path, old, new, props) in M.items():
            subprocess.check_call(["git", "-C", wt, "checkout", "-q", "--", "."])
            edits = [(path, old, new)] + ([EXTRA[name]] if name in EXTRA else [])
            for p, o, n in edits:
                fp = os.path.join(wt, p)
                s = open(fp).read()
                if s.count(o) != 1:
                    print(f"!! {name}: pattern occurs {s.count(o)} times in {p}")
                    break
                open(fp, "w").write(s.replace(o, n))
            else:
                d = subprocess.check_output(["git", "-C", wt, "diff"]).decode()
                open(os.path.join(HERE, "mutants", name + ".diff"), "w").write(d)
                meta[name] = {"expected": props}
        json.dump(meta, open(os.path.join(HERE, "mutants", "meta.json"), "w"), indent=1)
    finally:
        subprocess.run(["git", "-C", "/repo", "worktree", "remove", "--force", wt], capture_output=True)
    print(len(meta), "mutants written")

main()
